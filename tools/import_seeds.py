#!/usr/bin/env python3
"""import_seeds.py <id>... — copy /tmp/seed-out/<id>/{patch.diff,demo.diff,notes.md,summary.json} to seeded/<id>/ and register
the patch in mutants/index.json (expect violation under its own property, no particular key)."""
import json
import os
import shutil
import sys

V = os.path.dirname(os.path.dirname(os.path.abspath(__file__)))
p = os.path.join(V, "mutants", "index.json")
idx = json.load(open(p))
have = {m["patch"] for m in idx}
for sid in sys.argv[1:]:
    src = f"/tmp/seed-out/{sid}"
    if not os.path.exists(os.path.join(src, "patch.diff")):
        print("skip (no patch.diff):", sid)
        continue
    d = os.path.join(V, "seeded", sid)
    os.makedirs(d, exist_ok=True)
    for f in ("patch.diff", "demo.diff", "notes.md", "summary.json"):
        if os.path.exists(os.path.join(src, f)):
            shutil.copy(os.path.join(src, f), os.path.join(d, f))
    pt = f"seeded/{sid}/patch.diff"
    if pt not in have:
        idx.append({"patch": pt, "property": sid[:3], "expect": "violation", "keys": []})
        have.add(pt)
    print("imported", sid)
json.dump(idx, open(p, "w"), indent=1)
