#!/usr/bin/env python3
"""Print a markdown table of the implemented rules (from evidence/*.json) and of the selftest results."""
import glob
import json
import os

V = os.path.dirname(os.path.dirname(os.path.abspath(__file__)))
print("| property | rule | instances (floor) | decided clause |")
print("|---|---|---|---|")
for f in sorted(glob.glob(os.path.join(V, "evidence", "C*.json"))):
    ev = json.load(open(f))
    for r in ev["coverage"]["rules"]:
        txt = (r["text"] or "").replace("|", "/")
        if len(txt) > 230:
            txt = txt[:227] + "..."
        print(f"| {ev['property_id']} | {r['id']} | {r['instances']} ({r['floor'] if r['floor'] is not None else '-'}) | {txt} |")
print()
rp = os.path.join(V, "mutants", "last_results.json")
if os.path.exists(rp):
    print("| change | property | expected | result | caught by |")
    print("|---|---|---|---|---|")
    for r in json.load(open(rp)):
        cb = ", ".join(k.split("-", 1)[1] if "-" in k else k for k in r["caught_by"][:4])
        print(f"| {r['patch']} | {r['property']} | {r['expect']} | {'ok' if r['ok'] else 'MISSED'} | {cb} |")
