#!/usr/bin/env python3
"""add_benign.py <group> ...: copy /tmp/benign-out/<G>-<n>/patch.diff to mutants/benign-<G><n>.patch and register it in
mutants/index.json as `expect: silent` for the properties of its group plus every property anchored in a touched file."""
import json
import os
import re
import shutil
import sys

P = [json.loads(l) for l in open('/verif/properties.jsonl')]
GROUP = {"A": ["C01", "C02", "C03", "C08"], "B": ["C06", "C07", "C09", "C10", "C11"], "C": ["C04", "C05", "C15", "C16", "C18"],
         "D": ["C12", "C19"], "E": ["C13", "C14"], "F": ["C17", "C20"]}
p = '/verif/mutants/index.json'
idx = json.load(open(p))
for g in sys.argv[1:]:
    for n in range(1, 10):
        d = f"/tmp/benign-out/{g}-{n}"
        if not os.path.exists(d + "/patch.diff"):
            continue
        dst = f"mutants/benign-{g}{n}.patch"
        shutil.copy(d + "/patch.diff", "/verif/" + dst)
        if os.path.exists(d + "/notes.md"):
            shutil.copy(d + "/notes.md", f"/verif/mutants/benign-{g}{n}.notes.md")
        files = set(re.findall(r"^\+\+\+ b/(\S+)", open(d + "/patch.diff").read(), re.M))
        props = set(GROUP[g[0]])
        for q in P:
            if any(f in files for f in q["anchors"]["files"]):
                props.add(q["id"])
        ent = {"patch": dst, "property": ",".join(sorted(props)), "expect": "silent", "keys": [],
               "origin": "independent sub-agent (property texts only)"}
        idx = [m for m in idx if m['patch'] != dst] + [ent]
        print(dst, ent["property"])
json.dump(idx, open(p, 'w'), indent=1)
