#!/usr/bin/env python3
"""seed_prompt2.py <Cxx> <letters, e.g. cd> — prompt for a further independent mutation agent.

Like seed_prompt.py (property text only, nothing about the checks), but names the changes that earlier
agents already produced for the property so that the new ones use other sites / mechanisms."""
import json
import os
import re
import sys

pid, letters = sys.argv[1], sys.argv[2]
V = os.path.dirname(os.path.dirname(os.path.abspath(__file__)))
p = {json.loads(l)["id"]: json.loads(l) for l in open(os.path.join(V, "properties.jsonl"))}[pid]
mech = "\n".join(f"  - {m.get('name')} ({m.get('where')})" for m in p["anchors"]["mechanism"])
earlier = []
for d in sorted(os.listdir(os.path.join(V, "seeded"))):
    mp = os.path.join(V, "seeded", d, "meta.json")
    if d.startswith(pid) and os.path.exists(mp):
        m = json.load(open(mp))
        earlier.append(f"  - {m['summary']}")
n = len(letters)
names = ", ".join(f"{pid}-{c}" for c in letters)
wt = f"/tmp/seed-{pid}-{letters}"
print(f"""You are testing how well a verification effort can detect realistic regressions in the Rust crate ENQT-GmbH/remoc (a channel multiplexer with remote channels, RPC and observable collections). You get ONE semantic property of remoc and must produce {n} different realistic source changes that BREAK that property while the crate still compiles and the existing test suite still passes.

Rules of engagement (important):
- Do NOT look at anything under /verif (you must work independently of the existing checks). Do not edit or commit anything in /repo itself.
- Work only in your own scratch git worktree:  git -C /repo worktree add --detach {wt} HEAD   (then work inside {wt}; it gets its own target dir; the first build takes 1-2 minutes; other agents are building at the same time, so be patient). Everything is offline: always pass --offline to cargo and set CARGO_NET_OFFLINE=true.
- The existing suite is:  cargo test --workspace --no-fail-fast --offline   (141 tests in the `tests` integration target + 20 doctests). It must still pass with each of your changes applied (run it; a flaky failure unrelated to your change may be re-run once).

The property ({pid}: {p['title']}):
  {p['statement']}
Quantified over: {p['quantifier']['text']}
Code that is meant to make it hold:
{mech}
Relevant files: {', '.join(p['anchors']['files'])}

Earlier experiments already produced the following changes for this property — do NOT repeat them or close variants of them; choose other code sites and other mechanisms (other functions of the relevant files, other clauses of the property statement):
{chr(10).join(earlier) if earlier else '  (none)'}

What to produce — {n} separate changes (call them {names}), each:
- a small, plausible edit to remoc's library sources (the kind of slip a maintainer could make in a refactoring or "optimisation": a reordered statement, a dropped update, a wrong operand, an await moved, a condition weakened, a guard released early, a flag swapped, a notification dropped on one path, an off-by-one in accounting ...), NOT a blatant sabotage and not something ordinary use exposes at once. Prefer changes that need something specific to manifest: a particular interleaving, a cancellation at a particular await, a fault at a particular point, a multi-step sequence, an unusual input/configuration, or two cooperating sites that each look fine alone. The {n} changes should break the property through different mechanisms / different code sites.
- it must compile without new warnings-as-errors and the existing suite must still pass with it.
- a demonstration: a new test (put it in a new file under remoc/tests/, registered in the corresponding mod.rs, or a small example program) that FAILS (or times out — use tokio::time::timeout so it fails rather than hangs) with your change and PASSES on the unmodified tree. Run both and record the outputs.

Deliverables: create the directories /tmp/seed-out/{pid}-{letters[0]}{''.join(f' and /tmp/seed-out/{pid}-{c}' for c in letters[1:])}, each containing:
  patch.diff   – `git diff` of ONLY the library source change (applies with `git apply` to a pristine worktree of /repo HEAD)
  demo.diff    – `git diff` of ONLY the added/changed test files (applies to a pristine worktree; independent of patch.diff)
  notes.md     – what the change is, why it breaks the property, exactly what is needed for it to manifest (schedule / input / fault), the command to run the demonstration, its output with and without the change, and the suite totals with the change applied.
  summary.json – {{"summary": "<one line: function + what was changed>", "needs_to_manifest": "<one line>"}}
Then clean up: git -C /repo worktree remove --force {wt}  and make sure {wt} is gone (keep /tmp/seed-out).

Report back a short summary per change: files/functions touched, mechanism, how it manifests, demo test name, results (fails with / passes without), suite totals.""")
