#!/usr/bin/env python3
"""Refresh the generated tables of DESIGN.md from evidence/*.json and mutants/last_results.json."""
import glob
import json
import os
import re

V = os.path.dirname(os.path.dirname(os.path.abspath(__file__)))


def rules_table():
    out = ["| property | rule | instances (floor) | decided clause |", "|---|---|---|---|"]
    for f in sorted(glob.glob(os.path.join(V, "evidence", "C*.json"))):
        ev = json.load(open(f))
        for r in ev["coverage"]["rules"]:
            txt = (r["text"] or "").replace("|", "/").replace("\n", " ")
            if len(txt) > 260:
                txt = txt[:257] + "..."
            out.append(f"| {ev['property_id']} | {r['id']} | {r['instances']} ({r['floor'] if r['floor'] is not None else '-'}) | {txt} |")
    return "\n".join(out)


def seeds_table():
    rp = os.path.join(V, "mutants", "last_results.json")
    if not os.path.exists(rp):
        return "(run ./check selftest)"
    out = ["| change | checked under | expected | outcome | reported by (rule-site) |", "|---|---|---|---|---|"]
    for r in json.load(open(rp)):
        cb = "; ".join(k.split("-", 1)[1] if "-" in k else k for k in r["caught_by"][:3])
        what = ""
        meta = os.path.join(V, os.path.dirname(r["patch"]), "meta.json")
        if os.path.exists(meta):
            what = " — " + json.load(open(meta)).get("summary", "")[:110]
        out.append(f"| {r['patch']}{what} | {r['property']} | {r['expect']} | {'as expected' if r['ok'] else 'MISSED'} | {cb[:160]} |")
    return "\n".join(out)


p = os.path.join(V, "DESIGN.md")
s = open(p).read()
s = re.sub(r"<!-- RULES-TABLE-BEGIN -->.*?<!-- RULES-TABLE-END -->",
           "<!-- RULES-TABLE-BEGIN -->\n" + rules_table() + "\n<!-- RULES-TABLE-END -->", s, flags=re.S)
s = re.sub(r"<!-- SEEDS-TABLE-BEGIN -->.*?<!-- SEEDS-TABLE-END -->",
           "<!-- SEEDS-TABLE-BEGIN -->\n" + seeds_table() + "\n<!-- SEEDS-TABLE-END -->", s, flags=re.S)
open(p, "w").write(s)
print("DESIGN.md tables refreshed")
