#!/usr/bin/env python3
"""mkmutant.py <name> <repo-relative file> <<< JSON [[old, new], ...]  -> mutants/<name>.patch (unified diff vs /repo HEAD)"""
import difflib
import json
import subprocess
import sys

name, rel = sys.argv[1], sys.argv[2]
pairs = json.load(sys.stdin)
src = subprocess.check_output(["git", "-C", "/repo", "show", f"HEAD:{rel}"], text=True)
new = src
for old, rep in pairs:
    if new.count(old) != 1:
        sys.exit(f"{name}: pattern occurs {new.count(old)} times: {old[:60]!r}")
    new = new.replace(old, rep)
diff = "".join(difflib.unified_diff(src.splitlines(True), new.splitlines(True), f"a/{rel}", f"b/{rel}"))
mode = "a" if len(sys.argv) > 3 and sys.argv[3] == "--append" else "w"
open(f"/verif/mutants/{name}.patch", mode).write(diff)
print(f"mutants/{name}.patch: {len(diff.splitlines())} lines")
