#!/usr/bin/env python3
"""Merge the per-shard result files of a sharded ./check selftest (mutants/.last_results.*.json) into mutants/last_results.json."""
import glob
import json
import os

V = os.path.join(os.path.dirname(os.path.dirname(os.path.abspath(__file__))), "mutants")
rp = os.path.join(V, "last_results.json")
old = {(r["patch"], r["property"]): r for r in json.load(open(rp))} if os.path.exists(rp) else {}
files = sorted(glob.glob(os.path.join(V, ".last_results.*.json")), key=os.path.getmtime)
for f in files:
    for r in json.load(open(f)):
        old[(r["patch"], r["property"])] = r
idx = {m["patch"] for m in json.load(open(os.path.join(V, "index.json")))}
res = [r for k, r in sorted(old.items()) if r["patch"] in idx]
json.dump(res, open(rp, "w"), indent=1)
for f in files:
    os.remove(f)
print(f"{len(res)} results, {sum(1 for r in res if not r['ok'])} not as expected")
for r in res:
    if not r["ok"]:
        print("  ", r["patch"], r["property"], r["expect"], r["caught_by"][:3])
