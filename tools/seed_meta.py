#!/usr/bin/env python3
"""Write seeded/<id>/meta.json from the hand-written table below + verify.json + selftest results."""
import json
import os

V = os.path.dirname(os.path.dirname(os.path.abspath(__file__)))
T = {
 "C01-a": ("C01", "ChunkSender::send_int computes `last` before the credit clamp", "chunk-streamed send_final whose last piece straddles the end of the credit window (lagging receiver, sizes not aligned with receive_buffer)"),
 "C01-b": ("C01", "Receiver::recv_data keeps a partial buffer when a frame is marked first", "multi-chunk send cancelled after >= 1 chunk (e.g. timeout while waiting for credit), then another message"),
 "C02-a": ("C02", "Sender::send merges empty/non-empty branches: empty message takes 0 credits", "traffic containing empty chmux messages with a lagging receiver"),
 "C02-b": ("C02", "create_port seeds the send credit from local_cfg.receive_buffer", "endpoints with different receive_buffer (sender side larger) and a slow receiver"),
 "C03-a": ("C03", "return_flush takes the parked credit-return future out of self before awaiting it", "receiver's event queue full, a message crossing the return threshold consumed, the next recv() cancelled"),
 "C03-b": ("C03", "Sender::connect reserves the queue slot before requesting credit", "small shared_send_queue, a stalled port without credit doing connect, traffic on another port"),
 "C04-a": ("C04", "base::Receiver::recv takes the chunk before it has a slot in the deserializer queue", "streamed item, full deserializer queue, recv() future dropped at that await (timeout / select / mpsc close)"),
 "C04-b": ("C04", "Receiver::recv_data ignores `first` while a message is being assembled", "multi-frame item aborted after >= 1 frame, then another item on the same channel"),
 "C05-a": ("C05", "Location::check_local no longer falls back to Local when the transfer was discarded", "a bin half serialized twice (value larger than max_data_size, or a refused send retried)"),
 "C05-b": ("C05", "forward re-announces requests under remote_port() instead of id()", "port requests crossing two or more chmux forwarding hops"),
 "C06-a": ("C06", "send_task no longer flushes after feeding a Ping", "buffering transport sink (FramedWrite), remote timeout enabled, idle longer than the timeout"),
 "C06-b": ("C06", "CreditUser::request upgrades the Weak once, outside the wait loop", "a sender blocked on credits at the moment the local dispatcher dies"),
 "C07-a": ("C07", "ReceiveFinish marks remote_receiver_dropped only if the receiver was not closed before", "Receiver::close() followed by drop on both directions / repeated max_ports times"),
 "C07-b": ("C07", "Request::accept_from signals done before queueing Accepted", "accept future cancelled while the shared event queue is full"),
 "C08-a": ("C08", "create_port sizes the receive credit monitor from the peer's Hello", "peer advertising a larger port_receive_buffer and sending beyond granted credit"),
 "C08-b": ("C08", "recv_chunk awaits return_flush once before its loop instead of every iteration", "peer stops reading, two orphan chunks each crossing the return threshold, user streaming with recv_chunk"),
 "C09-a": ("C09", "SendPorts arm gates ids on the local PROTOCOL_VERSION instead of the peer's version", "peer announcing protocol version 2 and ports sent over an existing port"),
 "C09-b": ("C09", "PortData decoder tests MSG_OPEN_PORT_FLAG_WAIT (bit 0) for `wait`", "PortData with wait=false, or a multi-chunk port list with wait=true"),
 "C10-a": ("C10", "OpenPort builds the Request (and its drop watcher) only when a listener exists", "listener dropped and processed, client connects before it receives ListenerFinish"),
 "C10-b": ("C10", "Request::accept_from signals done before queueing Accepted", "acceptor's event queue full and the accept future cancelled at that await"),
 "C11-a": ("C11", "a closed chmux Receiver stops returning flow credits", "forwarding hop (override_graceful_close), graceful close with more data in flight than the forwarder has credit"),
 "C11-b": ("C11", "hang-up notifier list drained instead of taken", "closed() future obtained after the hang-up was processed (forwarder busy in send)"),
 "C13-a": ("C13", "MirroredVec::subscribe registers for events before taking the read-locked snapshot", "subscription to a mirror while an event is being applied (reader holds borrow, writer parked)"),
 "C13-b": ("C13", "ObservableHashMap::retain lets the RefMut drop after Remove was sent", "retain rejecting at least one entry while a subscriber exists"),
 "C14-a": ("C14", "HashMapSubscription::recv decrements the initial-length counter before the await", "event-wise consumer of an incremental subscription cancelling a pending recv()"),
 "C14-b": ("C14", "ObservableList::task sheds caught-up subscribers on the distributor channel closing", "list dropped without done() while a distributor clone is alive"),
 "C17-a": ("C17", "owner_task sends the commit confirmation even when no new value was received", "remote writer whose committed value cannot be received by the owner"),
 "C17-b": ("C17", "cache monitor waits for a change before checking the invalidation flag", "remote cold read served, then a write processed before the Value reaches the reader"),
 "C12-a": ("C12", "TraitMethod::parse strips #[no_cancel] before looking for it: every method becomes cancellable", "a #[no_cancel] &mut method with awaits between the parts of its mutation whose caller goes away mid-call"),
 "C12-b": ("C12", "RFn::try_call_int keeps the rejected request (and its own result sender) alive across result_rx.await", "RFn called where the request channel rejects with SendError::Closed(item): the call never completes"),
 "C15-a": ("C15", "watch::send_impl leaves the forwarding loop when has_changed() reports the closed channel", "newer value sent and sender dropped while the previous value's remote send is still suspended"),
 "C15-b": ("C15", "Serialize for watch::Receiver snapshots with borrow() and marks the version seen later, inside the connect task", "updates between serialization of the receiver and the first poll of its connect task, sender quiet afterwards"),
 "C16-a": ("C16", "broadcast lag-notification task is raced against ready_tx.closed()", "subscriber overflowed, then the Sender dropped before the Lagged marker was queued"),
 "C16-b": ("C16", "broadcast Sender::send releases the lock during the fan-out (subs taken out meanwhile)", "concurrent send() through another clone of the Sender on another thread"),
 "C18-a": ("C18", "Deserialize for io::Sender restarts bytes_written at 0", "sender that wrote k > 0 bytes, was sent to another endpoint and is written to again"),
 "C18-b": ("C18", "io::Receiver::poll_read releases the DataBuf after its first contiguous piece", "a message split at the credit boundary (more in flight than receive_buffer), reassembled as a two-piece DataBuf"),
 "C19-a": ("C19", "mpsc::Receiver::recv returns the second final (connection lost) error instead of holding it back", "one server, three clients, two of them on connections that both fail while the third keeps calling"),
 "C19-b": ("C19", "rtc::send_reply forwards SendingErrorKind::Dropped to the reply-error channel", "call future dropped after the reply was queued and before it was transmitted"),
 "C20-a": ("C20", "Handle's release task removes the stored value on any change of the keep flag", "Handle::provided -> handle sent -> Provider::keep()"),
 "C20-b": ("C20", "LazyBlob::fetch maps a port closed without data to Ok(empty)", "blob forwarded A->B->C with the A-B connection cut mid-transfer"),
 "C20-c": ("C20", "LazyBlob::into_inner always takes the output out of the cache shared with clones", "clone a received blob, into_inner() on one clone, get() on another"),
}
res = {}
rp = os.path.join(V, "mutants", "last_results.json")
if os.path.exists(rp):
    for r in json.load(open(rp)):
        res.setdefault(r["patch"], []).append(r)
# later rounds: the agent's own one-line summary (summary.json in the seed directory)
for sid in sorted(os.listdir(os.path.join(V, "seeded"))):
    sp = os.path.join(V, "seeded", sid, "summary.json")
    if sid not in T and os.path.exists(sp):
        try:
            sj = json.load(open(sp))
            T[sid] = (sid[:3], sj.get("summary", ""), sj.get("needs_to_manifest", ""))
        except ValueError:
            pass
for sid, (prop, summary, needs) in T.items():
    d = os.path.join(V, "seeded", sid)
    if not os.path.isdir(d):
        continue
    ver = json.load(open(os.path.join(d, "verify.json"))) if os.path.exists(os.path.join(d, "verify.json")) else None
    checks = res.get(f"seeded/{sid}/patch.diff", [])
    meta = {
        "id": sid, "property": prop, "summary": summary, "needs_to_manifest": needs,
        "origin": "fresh sub-agent given only the property text and a scratch worktree of /repo (nothing from /verif)",
        "demonstration": "demo.diff (new test file(s) under remoc/tests/); see notes.md for commands and outputs",
        "confirmed_by_me": (
            {"tool": "tools/verify_seed.py (scratch worktree of /repo HEAD, removed afterwards)",
             "demo_passes_without_patch": ver["demo_passes_without_patch"], "demo_fails_with_patch": ver["demo_fails_with_patch"],
             "baseline_141_pass_with_patch": ver["baseline_passes_with_patch"], "builds": ver["builds_with_patch"],
             "demo_tests": ver["demo_tests"], "verdict": ver["verdict"]} if ver else "pending"),
        "checks_run": [{"check": f"./check {c['property']} quick (REMOC_SRC = scratch worktree with patch.diff applied)",
                        "detected": bool(c["caught_by"]), "reported_by": c["caught_by"][:4]} for c in checks],
    }
    json.dump(meta, open(os.path.join(d, "meta.json"), "w"), indent=1)
print("meta written for", len(T))
