#!/usr/bin/env python3
"""Print the prompt for an independent *benign refactoring* agent: property texts only, nothing from /verif.
usage: benign_prompt.py <group tag> <n> <Cxx> [<Cxx> ...]"""
import json
import sys

tag, n, pids = sys.argv[1], sys.argv[2], sys.argv[3:]
P = {json.loads(l)["id"]: json.loads(l) for l in open("/verif/properties.jsonl")}
blocks = []
for pid in pids:
    p = P[pid]
    mech = "\n".join(f"    - {m.get('name')} ({m.get('where')})" for m in p["anchors"]["mechanism"])
    blocks.append(f"""  {pid}: {p['title']}
    {p['statement']}
    Code that is meant to make it hold:
{mech}
    Relevant files: {', '.join(p['anchors']['files'])}""")
print(f"""You are helping to test a verification effort for the Rust crate ENQT-GmbH/remoc (a channel multiplexer with remote channels, RPC and observable collections) for FALSE ALARMS. You get some semantic properties of remoc and must produce {n} different realistic, strictly BEHAVIOUR-PRESERVING refactorings of the code that implements them: after each of your changes every property below must still hold exactly as before, the crate compiles without new warnings and the existing test suite passes.

Rules of engagement (important):
- Do NOT look at anything under /verif (you must work independently of the existing checks). Do not edit or commit anything in /repo itself. Do not use pkill / killall / git stash.
- Work only in your own scratch git worktree:  git -C /repo worktree add --detach /tmp/benign-{tag} HEAD   (then work inside /tmp/benign-{tag}; it gets its own target dir; the first build takes a few minutes). Everything is offline: always pass --offline to cargo and set CARGO_NET_OFFLINE=true.
- The existing suite is:  cargo test --workspace --no-fail-fast --offline   (141 tests in the `tests` integration target + 20 doctests). It must pass with each change (a flaky failure unrelated to your change may be re-run once). To save time you may run the suite once per change, or once with several independent changes applied together and then split them.

The properties:
{chr(10).join(blocks)}

What to produce — {n} separate changes (number them 1..{n}), spread over the functions named above (the mechanisms and the code right around them), each a refactoring a maintainer could plausibly make and a reviewer would wave through as "no functional change", for example:
  - extracting a few statements into a helper function or method (or inlining a small helper into its only caller),
  - replacing a `match` by `if let` / `let else` / `matches!` / combinators (`ok_or`, `map_err`, `?`) or the other way round,
  - reordering statements that are independent of each other, renaming locals / fields, introducing a temporary, splitting or merging `if` conditions without changing their meaning,
  - replacing `a += b` by `a = a.saturating_add(b)` / `checked_add(..).expect(..)` only where no overflow is possible anyway, `x.min(y)` vs `cmp::min(x, y)`, `for` loop vs iterator chain, `loop/match/break` vs `while let`,
  - turning a closure into a named fn, a `select!` arm body into a function, a tuple into a small struct, changing visibility/ordering of items, adding tracing/logging statements, adding debug_assert!s that always hold.
Make them non-trivial: each should touch the actual mechanism code (the accounting, the state updates, the await/lock/notification sequence, the table of message kinds, ...) not only comments or formatting, and different changes should use different refactoring kinds. But be strict: do not change any observable behaviour, ordering of awaits/sends/notifications relative to state updates, cancellation points, lock scopes, error values or sizes. If you are not sure a rewrite is exactly equivalent, do not use it.

Deliverables: create the directory /tmp/benign-out/{tag}-1 (… -{n}) each containing:
  patch.diff   – `git diff` of ONLY that change (applies with `git apply` to a pristine worktree of /repo HEAD, independently of the other changes)
  notes.md     – which property's mechanism it touches, what was rewritten, why it is exactly behaviour-preserving, and the suite totals with the change applied.
Then clean up: git -C /repo worktree remove --force /tmp/benign-{tag}  and make sure /tmp/benign-{tag} is gone (keep /tmp/benign-out).

Report back a short summary per change: files/functions touched, refactoring kind, suite totals.""")
