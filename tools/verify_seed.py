#!/usr/bin/env python3
"""verify_seed.py <seed dir with patch.diff + demo.diff> <id>

Confirms a seeded change independently in a scratch worktree of /repo HEAD:
 1. demo tests pass on the unmodified tree,
 2. with patch.diff applied the crate builds, the demo tests fail,
 3. the pre-existing suite (everything except the demo tests) still passes.
Writes <seed dir>/verify.json and removes the worktree (with its build output).
"""
import json
import os
import re
import subprocess
import sys
import time

seed, sid = sys.argv[1], sys.argv[2]
wt = f"/tmp/vseed-{sid}"
env = dict(os.environ, CARGO_NET_OFFLINE="true")
env.pop("RUSTC_WRAPPER", None)


def sh(cmd, cwd=None, timeout=3000):
    r = subprocess.run(cmd, shell=True, cwd=cwd, env=env, text=True, stdout=subprocess.PIPE, stderr=subprocess.STDOUT,
                       timeout=timeout)
    return r.returncode, r.stdout


def test_names(diff):
    """Names of #[test]-like functions added by demo.diff."""
    names = []
    for l in open(diff):
        m = re.match(r"^\+\s*(?:pub\s+)?(?:async\s+)?fn\s+(\w+)\s*\(", l)
        if m:
            names.append(m.group(1))
    return names


def results(out):
    ok = set(re.findall(r"^test (\S+) \.\.\. ok", out, re.M))
    bad = set(re.findall(r"^test (\S+) \.\.\. FAILED", out, re.M))
    return ok, bad


res = {"id": sid, "started": time.strftime("%F %T")}
sh(f"git -C /repo worktree remove --force {wt}")
rc, out = sh(f"git -C /repo worktree add --detach {wt} HEAD")
try:
    rc, out = sh(f"git apply {seed}/demo.diff", cwd=wt)
    res["demo_applies"] = rc == 0
    rc, out = sh("cargo test --workspace --no-fail-fast --offline 2>&1", cwd=wt)
    ok0, bad0 = results(out)
    res["clean_tree"] = {"passed": len(ok0), "failed": sorted(bad0)}
    rc, out = sh(f"git apply {seed}/patch.diff", cwd=wt)
    res["patch_applies"] = rc == 0
    rc, out = sh("cargo test --workspace --no-fail-fast --offline 2>&1", cwd=wt)
    ok1, bad1 = results(out)
    res["builds_with_patch"] = "error: could not compile" not in out and "error[E" not in out
    res["with_patch"] = {"passed": len(ok1), "failed": sorted(bad1)}
    demo_tests = {t for t in ok0 | bad0 if t not in json.load(open("/root/.vp/BASELINE.json"))["stable_pass"]
                  and ("remoc::tests::" + t) not in json.load(open("/root/.vp/BASELINE.json"))["stable_pass"]
                  and not t.startswith("remoc/src")}
    base = {t for t in ok0 | bad0 if t not in demo_tests}
    flaky = sorted(base & bad1)
    if flaky and len(flaky) <= 6:
        # a baseline test that fails under machine load (timeouts) may be re-run once, on its own
        still = []
        for t in flaky:
            rc2, out2 = sh(f"cargo test --offline -p remoc --test tests -- {t} --exact 2>&1", cwd=wt)
            ok2, bad2 = results(out2)
            if t in ok2:
                ok1.add(t)
                bad1.discard(t)
            else:
                still.append(t)
        res["baseline_rerun"] = {"rerun": flaky, "still_failing": still}
    res["demo_tests"] = sorted(demo_tests)
    res["demo_passes_without_patch"] = bool(demo_tests) and not (demo_tests & bad0)
    res["demo_fails_with_patch"] = bool(demo_tests & bad1)
    res["baseline_passes_with_patch"] = not (base & bad1) and len(base & ok1) >= 141
    res["baseline_count_with_patch"] = len(base & ok1)
    res["verdict"] = all(res[k] for k in ("demo_applies", "patch_applies", "builds_with_patch", "demo_passes_without_patch",
                                          "demo_fails_with_patch", "baseline_passes_with_patch"))
    open(f"{seed}/verify_with_patch.log", "w").write(out[-20000:])
finally:
    sh(f"git -C /repo worktree remove --force {wt}")
    res["finished"] = time.strftime("%F %T")
    json.dump(res, open(f"{seed}/verify.json", "w"), indent=1)
    print(json.dumps(res, indent=1))
