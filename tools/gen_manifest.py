#!/usr/bin/env python3
"""Regenerate MANIFEST.json from the rule modules that exist (claimed) and NOT_APPLICABLE below."""
import importlib
import json
import os
import sys

VERIF = os.path.dirname(os.path.dirname(os.path.abspath(__file__)))
sys.path.insert(0, os.path.join(VERIF, "rules"))

NOT_APPLICABLE = {
}

props = [json.loads(l) for l in open(os.path.join(VERIF, "properties.jsonl"))]
checks = []
na = []
for p in props:
    pid = p["id"]
    path = os.path.join(VERIF, "rules", pid.lower() + ".py")
    if pid in NOT_APPLICABLE or not os.path.exists(path):
        na.append({"property_id": pid, "reason": NOT_APPLICABLE.get(
            pid, "static rules for this property are not implemented yet in this tree (planned clauses: DESIGN.md section 2); nothing is claimed")})
        continue
    mod = importlib.import_module(pid.lower())
    # clauses that were added after the module's summary text was written (or that are shared from a sibling property):
    # taken from the rule list of the last evidence file, so the manifest names every clause the check evaluates
    extra = ""
    try:
        ev = json.load(open(os.path.join(VERIF, "evidence", pid + ".json")))
        more = [r for r in ev["coverage"]["rules"] if r["id"] not in mod.EXPLANATION]
        if more:
            extra = " Further clauses evaluated by the same check: " + " ".join(f"{r['id']} {r['text'].rstrip('.')}." for r in more)
    except (OSError, KeyError, ValueError):
        pass
    checks.append({
        "property_id": pid,
        "quick_cmd": f"./check {pid} quick",
        "thorough_cmd": f"./check {pid} thorough",
        "evidence_file": f"/verif/evidence/{pid}.json",
        "replay_cmd_template": "cat {path}",
        "engine": "remoc-facts + rules",
        "technique": "static analysis: custom rustc_private MIR extractor + path/dominance/provenance/typestate rules",
        "level_claimed": {
            "category": "other",
            "text": "Clause-wise static decision of necessary conditions, not of the behaviour: " + mod.EXPLANATION
                    + extra + " Not decided: " + "; ".join(getattr(mod, "NOT_DECIDED", [])) + ".",
            "design_ref": f"DESIGN.md section 2, {pid}",
        },
        "level_note": "Trusted base: " + "; ".join(mod.ASSUMPTIONS)
                      + "; the hand-written tables under spec/ and rules/common.py; facts are re-extracted from /repo's "
                        "working tree on every run (source-hash keyed cache).",
    })
m = {
    "version": 1,
    "setup_cmd": "./setup.sh",
    "hooks": {"guard": "remoc_verif",
              "enable": "none: static analysis reads /repo's sources through a rustc driver (RUSTC_WRAPPER under cargo +nightly check); no instrumentation of remoc is needed and no hook commits exist",
              "baseline_off_cmd": "cd /repo && cargo test --workspace --no-fail-fast --offline",
              "source_commits": [], "add_only": True},
    "engines": [
        {"name": "remoc-facts", "path": "driver/", "serves_properties": [c["property_id"] for c in checks],
         "kind_free_text": "rustc_private driver: dumps built MIR (pre-borrowck, explicit Yield = await points), ADT/impl/fn/const tables of remoc and of the macro-expansion witness crate as JSON"},
        {"name": "rules", "path": "rules/", "serves_properties": [c["property_id"] for c in checks],
         "kind_free_text": "Python rule engine over the fact base: CFG reachability, dominators, control dependence, must-pass-through, expression provenance, type facts, sibling tables"},
    ],
    "checks": checks,
    "notes": "All claims are level `other`: each check decides structural clauses (necessary conditions) of its property by static analysis of the current /repo tree; see DESIGN.md. `./check selftest` (not a property command) replays mutants/ and seeded/ patches both ways.",
    "not_applicable": na,
}
json.dump(m, open(os.path.join(VERIF, "MANIFEST.json"), "w"), indent=1)
print("claimed:", [c["property_id"] for c in checks])
print("not applicable:", [n["property_id"] for n in na])
