#!/bin/sh
# Build the fact extractor (rustc_private driver) offline.
set -e
cd "$(dirname "$0")"
export CARGO_NET_OFFLINE=true
cd driver && cargo +nightly build --release --offline
