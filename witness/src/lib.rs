//! Witness crate: never executed.  It instantiates `#[remoc::rtc::remote]` for every shape the
//! code generator distinguishes so that the fact extractor can read the MIR of the *generated*
//! clients, request enums, dispatch functions and serve loops.
#![allow(dead_code, unused)]

use remoc::rtc::CallError;

/// All three receiver kinds, cancellable and `#[no_cancel]` methods, with and without arguments.
#[remoc::rtc::remote]
pub trait Mixed {
    async fn by_ref(&self) -> Result<u32, CallError>;
    async fn by_ref_arg(&self, a: u32, b: String) -> Result<u32, CallError>;
    #[no_cancel]
    async fn by_ref_nc(&self) -> Result<u32, CallError>;
    async fn by_mut(&mut self, x: u32) -> Result<(), CallError>;
    #[no_cancel]
    async fn by_mut_nc(&mut self, x: u32) -> Result<(), CallError>;
    async fn by_value(self) -> Result<u64, CallError>;
    #[no_cancel]
    async fn by_value_nc(self, y: u8) -> Result<u64, CallError>;
}

pub struct MixedObj {
    v: u32,
}

impl Mixed for MixedObj {
    async fn by_ref(&self) -> Result<u32, CallError> {
        Ok(self.v)
    }
    async fn by_ref_arg(&self, a: u32, _b: String) -> Result<u32, CallError> {
        Ok(self.v + a)
    }
    async fn by_ref_nc(&self) -> Result<u32, CallError> {
        Ok(self.v)
    }
    async fn by_mut(&mut self, x: u32) -> Result<(), CallError> {
        self.v = x;
        Ok(())
    }
    async fn by_mut_nc(&mut self, x: u32) -> Result<(), CallError> {
        self.v = x;
        Ok(())
    }
    async fn by_value(self) -> Result<u64, CallError> {
        Ok(self.v as u64)
    }
    async fn by_value_nc(self, y: u8) -> Result<u64, CallError> {
        Ok(self.v as u64 + y as u64)
    }
}

/// Only shared-reference methods: this is the shape for which `Server` / `ServerShared` and a
/// clonable client are generated.
#[remoc::rtc::remote]
pub trait ReadOnly {
    async fn get(&self) -> Result<u32, CallError>;
    #[no_cancel]
    async fn get_nc(&self, k: u32) -> Result<u32, CallError>;
}

pub struct ReadOnlyObj(u32);

impl ReadOnly for ReadOnlyObj {
    async fn get(&self) -> Result<u32, CallError> {
        Ok(self.0)
    }
    async fn get_nc(&self, k: u32) -> Result<u32, CallError> {
        Ok(self.0 + k)
    }
}

/// Shared and mutable methods, no by-value method.
#[remoc::rtc::remote]
pub trait RefMutOnly {
    async fn read(&self) -> Result<u32, CallError>;
    async fn write(&mut self, v: u32) -> Result<u32, CallError>;
}

pub struct RefMutObj(u32);

impl RefMutOnly for RefMutObj {
    async fn read(&self) -> Result<u32, CallError> {
        Ok(self.0)
    }
    async fn write(&mut self, v: u32) -> Result<u32, CallError> {
        let old = self.0;
        self.0 = v;
        Ok(old)
    }
}

/// Generic trait.
#[remoc::rtc::remote]
pub trait Generic<T>
where
    T: remoc::RemoteSend + Clone,
{
    async fn put(&mut self, v: T) -> Result<(), CallError>;
    async fn take(&self) -> Result<T, CallError>;
}

pub struct GenericObj<T>(T);

impl<T> Generic<T> for GenericObj<T>
where
    T: remoc::RemoteSend + Clone + Sync,
{
    async fn put(&mut self, v: T) -> Result<(), CallError> {
        self.0 = v;
        Ok(())
    }
    async fn take(&self) -> Result<T, CallError> {
        Ok(self.0.clone())
    }
}

/// Methods with a default body: the client must still forward them (the served target may override them).
#[remoc::rtc::remote]
pub trait WithDefault: Sync {
    async fn plain(&self) -> Result<u32, CallError>;
    async fn defaulted(&self) -> Result<u32, CallError> {
        Ok(7)
    }
    async fn defaulted_mut(&mut self, x: u32) -> Result<u32, CallError> {
        Ok(x)
    }
}

pub struct WithDefaultObj(u32);

impl WithDefault for WithDefaultObj {
    async fn plain(&self) -> Result<u32, CallError> {
        Ok(self.0)
    }
    async fn defaulted(&self) -> Result<u32, CallError> {
        Ok(self.0 + 1)
    }
}

/// Instantiate every server flavour so that their `serve` loops are type-checked and built here.
pub async fn instantiate() {
    use remoc::rtc::{Server, ServerRef, ServerRefMut, ServerShared, ServerSharedMut};
    use std::sync::Arc;

    let (s, _c) = MixedServer::<_, remoc::codec::Default>::new(MixedObj { v: 0 }, 1);
    let _ = s.serve().await;

    let r = ReadOnlyObj(1);
    let (s, _c) = ReadOnlyServerRef::<_, remoc::codec::Default>::new(&r, 1);
    let _ = s.serve().await;

    let r = Arc::new(ReadOnlyObj(1));
    let (s, _c) = ReadOnlyServerShared::<_, remoc::codec::Default>::new(r, 1);
    let _ = s.serve(true).await;

    let (s, _c) = ReadOnlyServer::<_, remoc::codec::Default>::new(ReadOnlyObj(1), 1);
    let _ = s.serve().await;

    let mut w = RefMutObj(0);
    let (s, _c) = RefMutOnlyServerRefMut::<_, remoc::codec::Default>::new(&mut w, 1);
    let _ = s.serve().await;

    let w = Arc::new(remoc::rtc::LocalRwLock::new(RefMutObj(0)));
    let (s, _c) = RefMutOnlyServerSharedMut::<_, remoc::codec::Default>::new(w, 1);
    let _ = s.serve(false).await;

    let mut d = WithDefaultObj(0);
    let (s, mut c) = WithDefaultServerRefMut::<_, remoc::codec::Default>::new(&mut d, 1);
    let _ = s.serve().await;
    let _ = c.plain().await;
    let _ = c.defaulted().await;
    let _ = c.defaulted_mut(1).await;

    let g = Arc::new(remoc::rtc::LocalRwLock::new(GenericObj(0u8)));
    let (s, mut c) = GenericServerSharedMut::<u8, _, remoc::codec::Default>::new(g, 1);
    let _ = s.serve(true).await;
    let _ = c.put(1).await;
    let _ = c.take().await;
}

/// Client-side calls of every method shape.
pub async fn call_all(mut c: MixedClient) {
    let _ = c.by_ref().await;
    let _ = c.by_ref_arg(1, String::new()).await;
    let _ = c.by_ref_nc().await;
    let _ = c.by_mut(1).await;
    let _ = c.by_mut_nc(1).await;
    let _ = c.by_value_nc(1).await;
}
