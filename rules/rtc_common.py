"""Helpers for the properties anchored in macro-generated RPC code (C12, C19): the rules run on the
expansion of `#[remoc::rtc::remote]` in the witness crate (and, in the thorough tier, in remoc's test target)."""
import re

import mir
from mir import callee

DISPATCH_RE = re.compile(r"Req(Ref|RefMut|Value)?::dispatch::\{closure#\d+\}$")
SERVE_RE = re.compile(r" as remoc::(prelude|rtc)::(Server(Ref|RefMut|Shared|SharedMut)?)<.*>>::serve::\{closure#0\}$")
CLIENT_RE = re.compile(r"^(?:[a-z_]+::)*<(?:[a-z_0-9:]*::)?(\w+Client)<.*> as (?:[a-z_0-9:]*::)?(\w+)(?:<.*>)?>::(\w+)::\{closure#0\}$")

USER_CRATES = ("remoc_witness", "tests")


def user_bodies(F):
    return [b for b in F.by_dp.values() if b.crate in USER_CRATES]


def dispatch_coroutines(F):
    """[(body, trait method name or None, receiver kind)] for every generated per-method dispatch future."""
    out = []
    for b in user_bodies(F):
        sp = mir.strip_generics(b.path)
        if b.kind != "coroutine" or not DISPATCH_RE.search(sp):
            continue
        m = DISPATCH_RE.search(sp)
        kind = m.group(1) or "Value"
        meth = None
        for bb, t in b.calls():
            fn = t.get("fn", {})
            if fn.get("trait") and fn.get("local") and not fn["trait"].startswith(("std::", "core::", "remoc::", "futures::")):
                meth = (fn["trait"], fn["name"], bb)
        out.append((b, meth, kind))
    return out


def serve_coroutines(F):
    out = []
    for b in user_bodies(F):
        if b.kind == "coroutine":
            m = SERVE_RE.search(b.path)
            if m:
                out.append((b, m.group(2)))
    return out


def short(path):
    """`<MixedServer<Target, Codec> as remoc::prelude::Server<Target, Codec>>::serve::{closure#0}` -> `MixedServer::serve`"""
    m = re.match(r"^<(\w+)<.*?> as [\w:]+?(\w+)<.*>>::(\w+)", path)
    if m:
        return f"{m.group(1)}::{m.group(3)}"
    p = mir.strip_generics(path).replace("remoc_witness::", "")
    return p
