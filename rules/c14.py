"""C14 — mirrors and subscriptions never diverge silently."""
import mir
from mir import callee
from common import *  # noqa: F401,F403
from robs_common import *  # noqa: F401,F403

EXPLANATION = (
    "Static MIR rules for the error discipline of mirrors and subscriptions: R14.1 in each *Subscription::mirror task "
    "every Err outcome (of receiving an event and of applying it) stores the error into the mirror's error slot before "
    "the task stops; R14.2 Mirrored*::borrow / borrow_and_update return Ok only when the error slot is empty, detach "
    "still returns the contents; R14.3 the error conversion tables map Lagged->Lagged and Closed->Closed without "
    "wildcard, and *Subscription::recv propagates receive errors and maps a closed initial stream to Closed; R14.4 every "
    "handle_event arm that grows the mirrored collection passes the size-limit test before returning Ok; R14.5 the "
    "append-only list sends only through reserved permits, advances the subscriber position by one per sent element "
    "without a suspension in between, and sends Done only when the position has reached the end. When an overflow "
    "happens relative to event application is not decided."
)
ASSUMPTIONS = [
    "tokio mpsc Permit::send is infallible; broadcast channel semantics (Lagged marker) are covered by C16",
    "std collection methods in the GROWING table are the only ones that can increase a collection's length",
]
NOT_DECIDED = ["the moment at which an overflow happens relative to event application",
               "connection failures are turned into RemoteReceive errors by rch (C06)"]

RECV_ERR = "robs::RecvError"


def _mirror_tasks(F):
    for adt, (file, inner, ev, mirror_inner, sub, mirrored) in OBSERVABLES.items():
        b = F.bodies.get(f"{sub}::mirror::{{closure#0}}")
        if b is None:
            raise mir.AnchorMissing(f"mirror task of {sub}")
        yield adt, ev, mirror_inner, sub, mirrored, b


def r14_1(ck, F):
    ck.rule("R14.1", "mirror task: every path from an Err outcome (event receive error, handle_event error) to the end "
            "of the task stores the error into MirroredInner.error first",
            "subscriber lagged / collection dropped / size limit hit: the mirror task stops but borrow() keeps "
            "returning Ok with stale contents", floor=10)
    for adt, ev, mirror_inner, sub, mirrored, b in _mirror_tasks(F):
        stores = {bb for bb, i, s in b.field_stores("error")}
        rets = set(b.returns())
        n = 0
        for s in sorted(b.reachable):
            t = b.term(s)
            if t["t"] != "switch":
                continue
            o = t["o"]
            if o[0] == "k":
                continue
            d = [x for x in b.defs.get(o[1][0], []) if x[0] == "assign" and x[3]["rv"]["r"] == "discr"]
            if not d or d[0][3]["rv"].get("adt") != "std::result::Result":
                continue
            err_targets = [tb for v, tb in t["targets"] if switch_meaning(b, s, v) == "Err"]
            if not err_targets and isinstance(switch_meaning(b, s, None), tuple) and "Err" in switch_meaning(b, s, None):
                err_targets = [t["otherwise"]]
            if not err_targets:
                continue
            n += 1
            e = switch_expr(b, s)
            what = "handle_event" if mir.calls_in(e, f"{mirror_inner}::handle_event") else "event"
            p = b.find_path(err_targets, rets, avoid=stores)
            ck.expect(p is None, f"{sub.split('::')[-1]}::mirror#{what}-err-stored",
                      f"Err of {what} at {b.loc(s)} always reaches a store to .error before the task returns",
                      f"the mirror task can stop after an Err of {what} ({b.loc(s)}) without recording the error",
                      b.loc(s))
        ck.expect(n >= 2, f"{sub.split('::')[-1]}::mirror#err-arms", f"{n} Err arms analysed",
                  f"only {n} Err arms found in the mirror task (expected event + handle_event)", b.loc(0))


def r14_2(ck, F):
    ck.rule("R14.2", "Mirrored*::borrow and borrow_and_update construct their Ok result only in a block control-dependent "
            "on the error slot being None; detach returns the contents regardless",
            "after a failure the mirror presents stale contents as if they were current", floor=10)
    for adt, (file, inner, ev, mirror_inner, sub, mirrored) in OBSERVABLES.items():
        for m in ("borrow", "borrow_and_update"):
            b = F.main_body(f"{mirrored}::{m}")
            oks = [(bb, i) for bb, i, v in b.result_stores("Ok")]
            ok = bool(oks)
            for bb, i in oks:
                ce = conds(b, bb)
                ok = ok and any(e[0] == "discr" and mir.last_field(e[1]) == "error" and m_ == "None" for e, m_ in ce)
            ck.expect(ok, f"{mirrored.split('::')[-1]}::{m}", "Ok only when error is None",
                      f"{mirrored}::{m} can return Ok although an error is stored", b.loc(0))
        F.fn(f"{mirrored}::detach")


def r14_3(ck, F):
    ck.rule("R14.3", "From<broadcast::RecvError> / From<mpsc::RecvError> for robs::RecvError have no wildcard arm and map "
            "Lagged->Lagged, Closed->Closed; *Subscription::recv maps a closed initial stream to Closed",
            "a lagged subscriber would be told something else (or nothing)", floor=4)
    b = F.body("<robs::RecvError as std::convert::From<rch::broadcast::receiver::RecvError>>::from") \
        if "<robs::RecvError as std::convert::From<rch::broadcast::receiver::RecvError>>::from" in F.bodies else None
    if b is None:
        cands = [x for k, x in F.bodies.items() if k.startswith("<robs::RecvError as std::convert::From<rch::broadcast")]
        if not cands:
            raise mir.AnchorMissing("From<broadcast::RecvError> for robs::RecvError")
        b = cands[0]
    src_adt = None
    for s in b.reachable:
        if b.term(s)["t"] == "switch":
            e = switch_expr(b, s)
            for d in b.defs.get(b.term(s)["o"][1][0], []):
                if d[0] == "assign" and d[3]["rv"]["r"] == "discr":
                    src_adt = d[3]["rv"].get("adt")
    arms, sw, exhaustive = event_arms(b, src_adt)
    ck.expect(exhaustive, "From<broadcast::RecvError>#no-wildcard", "every source variant has its own arm",
              "wildcard arm in the error conversion", b.loc(sw))
    for v in ("Lagged", "Closed"):
        tgt = [rv["variant"] for bb, i, rv in b.aggregates(RECV_ERR) if bb in arms[v][2]] if v in arms else []
        ck.expect(tgt == [v], f"From<broadcast::RecvError>#{v}", f"{v} -> {v}", f"{v} is mapped to {tgt}", b.loc(sw))
    # subscriptions: initial stream closed -> Closed ; receive errors propagated with `?`
    for adt, (file, inner, ev, mirror_inner, sub, mirrored) in OBSERVABLES.items():
        b = F.main_body(f"{sub}::recv")
        tries = [bb for bb, t in b.calls("std::ops::FromResidual::from_residual")]
        closed = [bb for bb, i, rv in b.aggregates(RECV_ERR, "Closed")]
        need_closed = inner is not None
        ck.expect(bool(tries) and (bool(closed) or not need_closed), f"{sub.split('::')[-1]}::recv#errors",
                  f"{len(tries)} `?` propagation site(s), {len(closed)} Closed mapping(s)",
                  f"{sub}::recv: `?` sites {len(tries)}, Closed mappings {len(closed)}", b.loc(0))


def r14_4(ck, F):
    ck.rule("R14.4", "every arm of Mirrored*Inner::handle_event that calls a growing std mutator reaches the Ok result only "
            "through a comparison against self.max_size",
            "mirror(max_size = 2) and five insert(0, x) on the observed vector: the mirror holds five elements and "
            "reports nothing", floor=10)
    for adt, (file, inner, ev, mirror_inner, sub, mirrored) in OBSERVABLES.items():
        b = F.body(f"{mirror_inner}::handle_event")
        arms, sw, _ = event_arms(b, ev)
        fld = inner or "v"
        oks = [bb for bb, i, v in b.result_stores("Ok")]
        if not oks:
            raise mir.AnchorMissing(f"Ok result of {mirror_inner}::handle_event")
        limit_sw = []
        for s in b.reachable:
            if b.term(s)["t"] != "switch":
                continue
            e = switch_expr(b, s)
            if e[0] == "bin" and e[1] in ("Gt", "Ge", "Lt", "Le") and any(p == "self.max_size" for p in mir.paths_in(e)):
                limit_sw.append(s)
        for v, (s, tb, region) in sorted(arms.items()):
            grow = [(bb, c) for bb, t in b.calls() for c in [callee(t)]
                    if bb in region and c in GROWING and mir.last_field(b.expr(t["a"][0])) == fld]
            if not grow:
                continue
            p = b.find_path([tb], oks, avoid=limit_sw)
            site = f"{mirror_inner.split('::')[-1]}::handle_event#{v}"
            ck.expect(p is None, site, f"{[c.split('::')[-1] for _, c in grow]} followed/preceded by the max_size test on every path to Ok",
                      f"arm {v} grows the mirror with {[c.split('::')[-1] for _, c in grow]} and can return Ok without "
                      f"testing max_size", b.loc(grow[0][0]),
                      {"arm": v, "mutators": [c for _, c in grow]})


def r14_5(ck, F):
    ck.rule("R14.5", "append-only list: the distributor task sends only through reserved mpsc permits; after "
            "permit.send(Push(buffer[pos])) the same pos is incremented by 1 before any suspension; Done is sent only "
            "when pos has reached the buffer length",
            "a list subscriber would skip or repeat an element, or see Done before the last element", floor=4)
    task = F.main_body("robs::list::ObservableList::task")
    fam = F.family("robs::list::ObservableList::task")
    bad = [(x, bb) for x in fam for bb, t in x.calls()
           if (callee(t) or "") in ("tokio::sync::mpsc::Sender::try_send", "rch::mpsc::sender::Sender::try_send",
                                    "rch::broadcast::sender::Sender::send")]
    ck.expect(not bad, "list::task#no-try_send", "no try_send / broadcast send in the list task",
              f"list task uses a lossy send at {[x.loc(bb) for x, bb in bad]}", task.loc(0))
    sends = [(x, bb, t) for x in fam for bb, t in x.calls() if (callee(t) or "").endswith("Permit::send")]
    ck.expect(len(sends) >= 2, "list::task#permit-sends", f"{len(sends)} Permit::send sites (Push, Done)",
              f"{len(sends)} Permit::send sites", task.loc(0))
    for x, bb, t in sends:
        e = x.expr(t["a"][1])
        if e[0] != "agg":
            continue
        if e[2] == "Push":
            # the sent element is buffer[pos]; a store pos = pos + 1 follows before any Yield / loop end
            idx_ok = "pos" in mir.field_leaves(e)
            incs = [sb for sb, i, s in x.field_stores("pos")
                    if s["rv"]["r"] == "use" and (lambda v: v is not None and v[0] == "Add" and const_value(v[2]) == 1)(arith(x.expr(s["rv"]["o"])))]
            p = x.find_path([bb], set(x.yields()) | set(x.returns()), avoid=incs, from_succ=True)
            ck.expect(idx_ok and bool(incs) and p is None, "list::task#push-advances",
                      "Push(buffer[pos]) is followed by pos += 1 before any suspension",
                      "position not advanced by exactly one after sending an element (or element not buffer[pos])", x.loc(bb))
            ce = conds(x, bb)
            ck.expect(any(c[0] == "bin" and c[1] == "Lt" and "pos" in mir.field_leaves(c[2]) and m is True for c, m in ce),
                      "list::task#push-guard", "Push only while pos < len", "Push not guarded by pos < len", x.loc(bb))
        elif e[2] == "Done":
            ce = conds(x, bb)
            ck.expect(any(c[0] == "bin" and c[1] == "Lt" and "pos" in mir.field_leaves(c[2]) and m is False for c, m in ce),
                      "list::task#done-at-end", "Done only when pos has reached len",
                      "Done can be sent before all elements were sent", x.loc(bb))


def r14_6(ck, F):
    ck.rule("R14.6", "cancel-safe accounting of the incremental initial value: in *Subscription::recv the remaining-"
            "element counter `len` is decremented only where no Yield can follow before the element is returned",
            "a pending recv() dropped by a timeout / select!: the counter shrinks without an element being delivered, "
            "InitialComplete arrives early and the remaining initial elements are silently skipped", floor=4)
    for adt, (file, inner, ev, mirror_inner, sub, mirrored) in OBSERVABLES.items():
        if inner is None:
            continue
        b = F.main_body(f"{sub}::recv")
        decs = []
        for bb, i, s in b.assigns():
            if s["rv"]["r"] == "use" and len(s["p"]) >= 2:
                v = b.expr(s["rv"]["o"])
                ar = arith(v)
                if ar is not None and ar[0] == "Sub" and const_value(ar[2]) == 1 and "len" in mir.field_leaves(ar[1]) + [mir.last_field(ar[1])]:
                    decs.append(bb)
        ys = set(b.yields())
        bad = [d for d in decs if b.reach([d], include_start=False) & ys]
        ck.expect(bool(decs) and not bad, f"{sub.split('::')[-1]}::recv#len-after-await",
                  "len is decremented after the element was received (no Yield can follow)",
                  f"`len -= 1` at {[b.loc(d) for d in bad] or 'n/a'} can be followed by an await: a cancelled recv() loses an "
                  f"initial element" if decs else "decrement of len not found", b.loc(bad[0]) if bad else b.loc(0))


def r14_7(ck, F):
    ck.rule("R14.7", "a dropped list is reported: in ObservableList::task the subscribers that have caught up are shed "
            "(subs.retain) under is_none() of the list's own request channel (Option<UnboundedReceiver<Req<T>>>), not "
            "of the distributor channel",
            "list dropped without done() while a distributor clone is alive: caught-up subscribers and mirrors hang "
            "instead of receiving Closed", floor=1)
    b = F.main_body("robs::list::ObservableList::task")
    rets = [(bb, t) for bb, t in b.calls("std::vec::Vec::retain")]
    if not rets:
        raise mir.AnchorMissing("subs.retain in ObservableList::task")
    for k, (bb, t) in enumerate(rets):
        ok = False
        for s, tb, v in controlling_edges(b, bb):
            e = switch_expr(b, s)
            if e[0] == "call" and e[1] == "std::option::Option::is_none" and switch_meaning(b, s, v) is True:
                tt = b.term(e[3])
                aty = b.local_ty(tt["a"][0][1][0]) if tt["a"][0][0] != "k" else ""
                # type of the referenced option
                src = tt["a"][0][1][0]
                for d in b.defs.get(src, []):
                    if d[0] == "assign" and d[3]["rv"]["r"] == "ref":
                        aty = b.local_ty(d[3]["rv"]["p"][0])
                if "robs::list::Req<" in aty and "DistReq" not in aty:
                    ok = True
        ck.expect(ok, f"list::task#shed-on-list-drop{k}", "guarded by the list request channel being closed",
                  "subs.retain is not guarded by is_none() of the list's request channel", b.loc(bb))


def r14_8(ck, F):
    ck.rule("R14.8", "the relay channel of a mirror ends with the mirror task: a Mirrored* handle owns no strong "
            "rch::broadcast::Sender of the relay channel (a Weak reference at most) — the task that applies the events is the "
            "only owner, so that its subscribers observe Closed whenever the task stops (error, done, handle dropped)",
            "observed collection dropped before done() (or the first-level subscription lagged / exceeded max_size): the "
            "first-level mirror reports the error, but a subscription taken from that mirror receives no further event and no "
            "error for as long as the mirror handle is alive — its contents silently go stale", floor=4)
    n = 0
    for adt, (file, inner, ev, mirror_inner, sub, mirrored) in OBSERVABLES.items():
        a = F.adt(mirrored)
        has_subscribe = F.fns.get(f"{mirrored}::subscribe") is not None
        if not has_subscribe:
            continue
        n += 1
        strong = []
        for v in a["variants"]:
            for f in v["fields"]:
                ty = f["ty"]
                if "rch::broadcast::sender::Sender<" in ty or "rch::broadcast::Sender<" in ty:
                    inner_ty = ty
                    weak = ty.startswith(("std::sync::Weak<", "std::rc::Weak<"))
                    if not weak:
                        strong.append((f["name"], ty))
        short = mirrored.split("::")[-1]
        ck.expect(not strong, f"{short}#relay-owned-by-task", "no strong relay sender in the handle",
                  f"{mirrored} owns the relay sender itself (field `{strong[0][0] if strong else ''}`: {strong[0][1][:70] if strong else ''}): "
                  f"when its mirror task stops on an error the relay channel stays open and subscribers of the mirror are never told",
                  f"{a['file']}:{a['line']}")
    ck.expect(n >= 4, "mirrors#count", f"{n} mirror types with subscribe()", f"only {n} mirror types with subscribe() found", None)


INDEX_OPS = {"remove": "Lt", "swap_remove": "Lt", "swap_remove_back": "Lt", "swap_remove_front": "Lt", "index_mut": "Lt",
             "insert": "Le"}


def r14_9(ck, F):
    ck.rule("R14.9", "an event that does not apply is an error, not a no-op: in Mirrored{Vec,VecDeque}Inner::handle_event every "
            "arm that applies an index taken from the event validates it against the current length with the strictness the "
            "operation needs (index < len for remove / swap_remove / element assignment, index <= len for insert) before the "
            "operation, the failing side returning RecvError::InvalidIndex",
            "Remove(len) reaches a mirror (VecDeque::remove returns None instead of panicking): nothing is removed, no "
            "InvalidIndex is stored, later events are applied to contents that already differ — borrow() keeps returning Ok",
            floor=6)
    n = 0
    for adt, (file, inner, ev, mirror_inner, sub, mirrored) in OBSERVABLES.items():
        if inner is None or "hash" in file:
            continue
        hb = F.body(f"{mirror_inner}::handle_event")
        arms, sw, _ = event_arms(hb, ev)
        for v, (s_, tb, region) in arms.items():
            for bb, c in std_mutators(hb, {inner}):
                name = c.split("::")[-1]
                if bb not in region or name not in INDEX_OPS:
                    continue
                t = hb.term(bb)
                if len(t["a"]) < 2:
                    continue
                ie = mir.strip_casts(hb.expr(t["a"][1]))
                if not mir.show(ie).startswith(f"event.@{v}."):
                    continue
                n += 1
                want = INDEX_OPS[name]
                ok = False
                for e, m in conds(hb, bb):
                    if m is True and isinstance(e, tuple) and e[0] == "bin" and e[1] == want and mir.same_value(mir.strip_casts(e[2]), ie) \
                            and any(cc[1].endswith("::len") for cc in mir.calls_in(e[3])):
                        ok = True
                ck.expect(ok, f"{mirror_inner.split('::')[-1]}::{v}#{name}-index-checked",
                          f"{name} applied only under index {'<' if want == 'Lt' else '<='} len()",
                          f"{mirror_inner}::handle_event applies {name} in the {v} arm without establishing index "
                          f"{'<' if want == 'Lt' else '<='} len() first: an event that does not apply is skipped (or mis-applied) "
                          f"silently instead of being reported as InvalidIndex", hb.loc(bb))
    ck.expect(n >= 6, "index-arms#count", f"{n} index-taking operations", f"only {n} index-taking operations found", None)


def run(ck, F):
    for r in (r14_1, r14_2, r14_3, r14_4, r14_5, r14_6, r14_7, r14_8, r14_9):
        ck.run_rule(r)
    # shared clauses: observable collections report lag through rch::broadcast (marker before re-admission, surfaced by the
    # receiver); a subscription to a mirror must take snapshot and event stream in one step
    import c16
    import c13
    for r in (c16.r16_2, c16.r16_3, c16.r16_6, c13.r13_4, c13.r13_1, c13.r13_2):
        ck.run_rule(r)
