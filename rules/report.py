"""Obligation bookkeeping, known findings, evidence and exit status for one property check."""
import json
import os
import re
import time
import traceback

from mir import AnchorMissing

VERIF = os.path.dirname(os.path.dirname(os.path.abspath(__file__)))


def _slug(s):
    return re.sub(r"[^A-Za-z0-9_.-]+", "_", s).strip("_")[:150]


class Check:
    def __init__(self, prop, tier, facts, configs):
        self.prop = prop
        self.tier = tier
        self.F = facts
        self.configs = configs
        self.t0 = time.time()
        self.obligations = []      # dicts: rule, site, ok, msg, loc
        self.inconclusives = []
        self.violations = []       # dicts: key, rule, site, msg, detail
        self.floors = {}
        self.rule_desc = {}
        self.rule_breaks = {}
        self.queries = set()       # distinct non-trivial (rule, site) pairs with a path / dataflow query
        self.cur_rule = None
        self.not_decided = []

    # ------------------------------------------------------------------ rule API
    def rule(self, rid, desc, breaks_by=None, floor=None):
        self.cur_rule = rid
        self.rule_desc[rid] = desc
        if breaks_by:
            self.rule_breaks[rid] = breaks_by
        if floor is not None:
            self.floors[rid] = floor

    def _inlining_summary(self):
        inl = getattr(self.F, "_inliner", None)
        if inl is None:
            return {"views_with_spliced_helpers": 0}
        hs = sorted({h for v in inl.inlined.values() for h in v})
        return {"views_with_spliced_helpers": len(inl.inlined), "distinct_helpers_spliced": len(hs),
                "rule": "calls to remoc functions not named by any rule are spliced into the analysed body (rules/inline.py)",
                "sample": [{"body": k[1], "helpers": v[:6]} for k, v in sorted(inl.inlined.items())[:8]]}

    def ok(self, site, msg, loc=None, nontrivial=True):
        self.obligations.append({"rule": self.cur_rule, "site": site, "ok": True, "msg": msg, "loc": loc})
        if nontrivial:
            self.queries.add((self.cur_rule, site))

    def bad(self, site, msg, loc=None, detail=None):
        rid = self.cur_rule
        self.obligations.append({"rule": rid, "site": site, "ok": False, "msg": msg, "loc": loc})
        self.queries.add((rid, site))
        key = f"{self.prop}-{rid}-{_slug(site)}"
        self.violations.append({"key": key, "rule": rid, "site": site, "msg": msg, "loc": loc, "detail": detail})

    def expect(self, cond, site, msg_ok, msg_bad=None, loc=None, detail=None):
        if cond:
            self.ok(site, msg_ok, loc)
        else:
            self.bad(site, msg_bad or ("NOT: " + msg_ok), loc, detail)
        return cond

    def inconclusive(self, site, why, loc=None):
        self.inconclusives.append({"rule": self.cur_rule, "site": site, "why": why, "loc": loc})
        print(f"INCONCLUSIVE rule={self.cur_rule} site={site} {why}")

    def run_rule(self, fn):
        """Run one rule function; a missing anchor is a violation (fail closed)."""
        before = self.cur_rule
        try:
            fn(self, self.F)
        except AnchorMissing as e:
            rid = self.cur_rule or fn.__name__
            self.cur_rule = rid
            self.bad("anchor-missing", f"anchor missing: {e}")
        except Exception:
            rid = self.cur_rule or fn.__name__
            self.cur_rule = rid
            self.bad("rule-crashed", "rule implementation failed (treated as violation: fail closed): "
                     + traceback.format_exc()[-1500:])
        self.cur_rule = before

    # ------------------------------------------------------------------ finish
    def finish(self, explanation, assumptions, not_decided=()):
        # floors
        per_rule = {}
        for o in self.obligations:
            per_rule.setdefault(o["rule"], []).append(o)
        for rid, n in self.floors.items():
            have = len(per_rule.get(rid, []))
            if have < n:
                self.cur_rule = rid
                self.bad("floor", f"rule {rid} matched {have} instances, fewer than the {n} confirmed by hand "
                                  f"(a rule must not pass vacuously)")
        known = {}
        kf_path = os.path.join(VERIF, "known_findings.json")
        if os.path.exists(kf_path):
            for k in json.load(open(kf_path)).get("findings", []):
                if k.get("status") == "open" and k.get("property") == self.prop:
                    known[k["key"]] = k
        evdir = os.environ.get("VERIF_EVIDENCE_DIR") or os.path.join(VERIF, "evidence")
        os.makedirs(os.path.join(evdir, "replay"), exist_ok=True)
        unknown = 0
        known_hit = []
        for v in self.violations:
            if v["key"] in known:
                known_hit.append(v["key"])
                print(f"KNOWN-FINDING: property={self.prop} {known[v['key']]['what']} [{v['key']}]")
                continue
            unknown += 1
            rp = os.path.join(evdir, "replay", v["key"] + ".json")
            json.dump({"property": self.prop, "rule": v["rule"], "rule_text": self.rule_desc.get(v["rule"]),
                       "breaks_by": self.rule_breaks.get(v["rule"]), "site": v["site"], "location": v["loc"],
                       "message": v["msg"], "detail": v["detail"], "source_tree": os.environ.get("REMOC_SRC", "/repo")},
                      open(rp, "w"), indent=1)
            print(f"  rule {v['rule']} at {v['loc']}: {v['msg']}")
            print(f"VIOLATION property={self.prop} replay={rp}")
        n_obl = len(self.obligations)
        n_ok = sum(1 for o in self.obligations if o["ok"])
        samples = []
        seen_rules = set()
        for o in self.obligations:
            if o["rule"] not in seen_rules or len(samples) < 12:
                if sum(1 for s in samples if s["rule"] == o["rule"]) < 2:
                    samples.append({"rule": o["rule"], "rule_text": self.rule_desc.get(o["rule"]), "site": o["site"],
                                    "location": o["loc"], "result": "discharged" if o["ok"] else "VIOLATED",
                                    "finding": o["msg"]})
                seen_rules.add(o["rule"])
        ev = {
            "property_id": self.prop,
            "tier": self.tier,
            "seed": int(os.environ.get("VERIF_SEED", "0") or 0),
            "level": "other",
            "coverage": {
                "explanation": explanation,
                "obligations": n_obl,
                "discharged": n_ok,
                "inconclusive": len(self.inconclusives),
                "evaluations": n_obl + len(self.inconclusives),
                "distinct_nontrivial": len(self.queries),
                "rule": "one obligation per (rule, site): a site is a resolved program entity (call site, aggregate "
                        "construction, store, match arm, impl, signature) selected by the rule's anchor; non-trivial = "
                        "the obligation needed a CFG path, dominance, provenance or type-table query",
                "samples": samples,
                "rules": [{"id": r, "text": d, "breaks_by": self.rule_breaks.get(r),
                           "instances": len(per_rule.get(r, [])), "floor": self.floors.get(r)}
                          for r, d in self.rule_desc.items()],
                "analysed": dict(self.F.stats, feature_configs=self.configs,
                                 helper_inlining=self._inlining_summary()),
                "inconclusive_sites": self.inconclusives[:20],
                "known_findings_matched": known_hit,
                "not_decided": list(not_decided),
                "exhaustive": False,
            },
            "assumptions": list(assumptions),
            "wall_s": round(time.time() - self.t0, 2),
            "violations": unknown,
        }
        json.dump(ev, open(os.path.join(evdir, f"{self.prop}.json"), "w"), indent=1)
        print(f"[{self.prop}] tier={self.tier} rules={len(self.rule_desc)} obligations={n_obl} discharged={n_ok} "
              f"inconclusive={len(self.inconclusives)} known={len(known_hit)} violations={unknown} "
              f"bodies={self.F.stats['bodies']} wall={ev['wall_s']}s")
        return 1 if unknown else 0
