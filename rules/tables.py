"""Classification tables read from `match self { .. }` / `matches!(self, ..)` functions."""
import mir
from common import const_value
from robs_common import event_arms


def variant_result_table(b, adt):
    """{variant: 'true' | 'false' | 'call:<callee>' | 'mixed'} for a fn(&self) -> bool matching on self."""
    arms, sw, _ = event_arms(b, adt)
    out = {}
    for v, (s, tb, region) in arms.items():
        vals = set()
        for bb in region | {tb}:
            for i, st in enumerate(b.stmts(bb)):
                if st["k"] == "assign" and st["p"] == [0]:
                    rv = st["rv"]
                    if rv["r"] == "use":
                        c = const_value(b.expr(rv["o"]))
                        if c is not None:
                            vals.add("true" if c else "false")
                        else:
                            e = b.expr(rv["o"])
                            vals.add("call:" + e[1].split("::")[-1] if e[0] == "call" else "other")
                    else:
                        vals.add("other")
            t = b.term(bb)
            if t["t"] == "call" and t["d"] == [0]:
                vals.add("call:" + (mir.callee(t) or "?").split("::")[-1])
        out[v] = vals.pop() if len(vals) == 1 else ("mixed" if vals else "none")
    return out
