"""C17 — remote read/write lock: exclusion, latest-committed reads, no deadlock."""
import mir
from mir import callee
from common import *  # noqa: F401,F403

EXPLANATION = (
    "Static MIR rules over robj/rw_lock: R17.1 no hold-and-wait on the owner: in ReadLock::fetch every path from the "
    "acquisition of the cache's write guard to an await on the owner (request send, value receive) first empties the "
    "guarded slot (or returns); R17.2 exclusion: in owner_task the current value is handed to a writer only after the "
    "notification sender was dropped and the drop-confirmation loop ended with Ok(None), with fresh channels created "
    "and no other request polled in between; R17.3 commit/abort: the value is overwritten only when the writer sent a "
    "new value, the confirmation follows the store, commit consumes the guard; R17.4 a live read guard pins the value "
    "(ReadGuard wraps a read guard of a Value that holds the drop-notification sender). Freshness and general "
    "liveness are not decided."
)
ASSUMPTIONS = [
    "tokio::sync::RwLock and rch mpsc/oneshot/watch channel semantics (a closed mpsc yields Ok(None) once all senders "
    "are dropped)",
    "wait-for edges were read off the code by hand: owner waits for every Value to drop; the monitor task needs the "
    "cache write lock",
]
NOT_DECIDED = ["freshness of reads (most recently committed value as of some instant)", "liveness in general",
               "loss of a lock holder's connection"]

FETCH = "robj::rw_lock::rw_lock::ReadLock::fetch"
OWNER_TASK = "robj::rw_lock::owner::Owner::owner_task"


def _none_stores_through(b, guard_ty_part):
    """Blocks that store Option::None through a deref_mut of a guard whose type contains guard_ty_part."""
    out = set()
    for bb, i, s in b.assigns():
        p = s["p"]
        if len(p) != 2 or p[1] != "*":
            continue
        rv = s["rv"]
        val = b.expr(rv["o"]) if rv["r"] == "use" else (("agg", rv.get("adt"), rv.get("variant"), ()) if rv["r"] == "agg" else None)
        if not val or val[0] != "agg" or val[1] != "std::option::Option" or val[2] != "None":
            continue
        e = b.expr(["c", [p[0]]])
        if e[0] == "call" and e[1] == "std::ops::DerefMut::deref_mut":
            sty = b.term(e[3])["fn"].get("self_ty", "")
            if guard_ty_part in sty:
                out.add(bb)
    # Option::take on the guarded slot also empties it
    for bb, t in b.calls("std::option::Option::take"):
        e = b.expr(t["a"][0])
        if any(c[1] == "std::ops::DerefMut::deref_mut" and guard_ty_part in b.term(c[3])["fn"].get("self_ty", "")
               for c in mir.calls_in(e)):
            out.add(bb)
    return out


def r17_1(ck, F):
    ck.rule("R17.1", "ReadLock::fetch: on every path from acquiring RwLockWriteGuard<Option<Value>> to a Yield that awaits "
            "the owner (req_tx.send / value_rx) the guarded slot has been emptied (store of None / Option::take) or "
            "the function returned",
            "reader A holds a cached value, a writer requests the lock, reader B wins the cache write lock before the "
            "monitor task: B waits for the owner, the owner waits for the cached Value to drop, the monitor waits for B",
            floor=2)
    b = F.main_body(FETCH)
    aw = b.awaits()
    wr = [a for a in aw if (a.get("fut_fn") or "").startswith("tokio::sync::RwLock::write")]
    if not wr:
        raise mir.AnchorMissing("cache.write().await in ReadLock::fetch")
    owner_waits = [a for a in aw if (a.get("fut_fn") or "").startswith("rch::mpsc::sender::Sender::send")
                   or "rch::oneshot::receiver::Receiver" in a.get("fut_ty", "")]
    if not owner_waits:
        raise mir.AnchorMissing("awaits on the owner in ReadLock::fetch")
    clears = _none_stores_through(b, "RwLockWriteGuard")
    for w in wr:
        for k, a in enumerate(owner_waits):
            p = b.find_path([w["ready_bb"]], [a["yield_bb"]], avoid=clears)
            what = "req_tx.send" if "mpsc" in (a.get("fut_fn") or "") else "value_rx"
            ck.expect(p is None, f"ReadLock::fetch#hold-and-wait-{what}",
                      f"the cache slot is emptied before awaiting the owner ({what}) while holding the write guard",
                      f"fetch awaits the owner ({what}, {b.loc(a['yield_bb'])}) while its cache write guard "
                      f"(acquired {b.loc(w['yield_bb'])}) may still hold a stale Value", b.loc(a["yield_bb"]),
                      {"write_guard_at": b.loc(w["yield_bb"]), "owner_wait_at": b.loc(a["yield_bb"])})


def r17_2(ck, F):
    ck.rule("R17.2", "owner_task write branch: value_tx.send(value.clone()) is dominated by drop(dropped_tx) and by the "
            "confirmation loop exit on dropped_rx.recv() == Ok(None); new dropped/invalid channels are created before "
            "it; between the drop and the hand-out only dropped_rx.recv() is awaited",
            "a writer obtains the value while a reader still holds a guard for it (write and read guards coexist)",
            floor=5)
    b = F.main_body(OWNER_TASK)
    sends = [(bb, t) for bb, t in b.calls("rch::oneshot::sender::Sender::send")
             if mir.calls_in(b.expr(t["a"][1]), "std::clone::Clone::clone") and
             not any(x[0] == "agg" for x in [b.expr(t["a"][1])])]
    # the write hand-out sends `value.clone()` (a T), the read branch sends a Value{..} aggregate
    if not sends:
        raise mir.AnchorMissing("value_tx.send(value.clone()) in owner_task")
    hand, ht = sends[0]
    drops = [bb for bb, t in b.calls("std::mem::drop") if "dropped_tx" in mir.show(b.expr(t["a"][0]))]
    ck.expect(bool(drops) and all(b.dominates(d, hand) for d in drops[:1]), "owner_task#drop-before-handout",
              "drop(dropped_tx) dominates the hand-out", "the notification sender is not dropped before the value is handed out",
              b.loc(hand))
    recvs = [a for a in b.awaits() if (a.get("fut_fn") or "").startswith("rch::mpsc::receiver::Receiver::recv")]
    ck.expect(bool(recvs) and all(b.dominates(a["yield_bb"], hand) or b.dominates(a["poll_bb"], hand) for a in recvs[:1]),
              "owner_task#wait-dominates-handout", "the drop-confirmation wait dominates the hand-out",
              "the hand-out does not wait for the drop confirmations", b.loc(hand))
    ce = conds(b, hand)
    none_exit = any(e[0] == "discr" and mir.calls_in(e, "rch::mpsc::receiver::Receiver::recv") and m == "None" for e, m in ce)
    ok_exit = any(e[0] == "discr" and mir.calls_in(e, "rch::mpsc::receiver::Receiver::recv") and m == "Ok" for e, m in ce)
    ck.expect(none_exit and ok_exit, "owner_task#loop-exit-on-Ok(None)",
              "the hand-out is reached only via dropped_rx.recv() == Ok(None)",
              "the confirmation loop can be left without Ok(None) (all holders gone)", b.loc(hand))
    chans = [bb for bb, t in b.calls("rch::mpsc::channel") if b.dominates(bb, hand) and drops and bb in b.reach([drops[0]])]
    watches = [bb for bb, t in b.calls("rch::watch::channel") if b.dominates(bb, hand) and drops and bb in b.reach([drops[0]])]
    ck.expect(bool(chans) and bool(watches), "owner_task#fresh-channels",
              "fresh dropped/invalid channels are created between the wait and the hand-out",
              "no fresh notification channels before the hand-out: the next generation would share the old ones", b.loc(hand))
    if drops:
        between = b.reach([drops[0]], avoid=[hand])
        other = [a for a in b.awaits() if a["yield_bb"] in between and hand in b.reach([a["yield_bb"]])
                 and not (a.get("fut_fn") or "").startswith("rch::mpsc::receiver::Receiver::recv")]
        ck.expect(not other, "owner_task#no-other-await-in-write-branch",
                  "only dropped_rx.recv() is awaited between the drop and the hand-out",
                  f"other awaits between drop and hand-out: {[b.loc(a['yield_bb']) for a in other]}", b.loc(hand))


def r17_3(ck, F):
    ck.rule("R17.3", "commit/abort: `*value = nv` is control-dependent on new_value_rx.await being Ok, confirm_tx.send is "
            "dominated by that store, WriteGuard::commit consumes self",
            "a dropped write guard would change the value, or a commit be confirmed before it is stored", floor=3)
    b = F.main_body(OWNER_TASK)
    stores = [(bb, i) for bb, i, s in b.assigns()
              if len(s["p"]) == 2 and s["p"][1] == "*" and b.expr(["c", [s["p"][0]]]) == ("path", "value")]
    if not stores:
        raise mir.AnchorMissing("store to *value in owner_task")
    for bb, i in stores:
        ce = conds(b, bb)
        ok = any(e[0] == "discr" and "new_value_rx" in mir.show(e) and m == "Ok" for e, m in ce)
        ck.expect(ok, "owner_task#store-on-Ok", "value overwritten only when the writer sent a new value",
                  "the shared value can be overwritten without a committed new value", b.loc(bb, i))
    conf = [bb for bb, t in b.calls("rch::oneshot::sender::Sender::send") if "confirm_tx" in mir.show(b.expr(t["a"][0]))]
    ck.expect(bool(conf) and all(any(b.dominates(sb, c) for sb, _ in stores) for c in conf), "owner_task#confirm-after-store",
              "confirmation is dominated by the store", "confirmation can be sent before/without storing the value",
              b.loc(conf[0]) if conf else b.loc(0))
    # the writer reports success only when the owner confirmed: in commit() no Err outcome of confirm_rx.await leads to Ok
    cb = F.main_body("robj::rw_lock::rw_lock::WriteGuard::commit")
    aw = [a for a in cb.awaits() if "oneshot" in (a.get("fut_ty") or "") + (a.get("fut_fn") or "")]
    if not aw:
        raise mir.AnchorMissing("confirm_rx.await in WriteGuard::commit")
    a = aw[-1]
    edges = outcome_edges(cb, None, lambda x: any(isinstance(w, tuple) and w and w[0] == "await" and w[2] == a["poll_bb"] for w in mir.walk(x)))
    errs = [tb for sb, tb, m, e in edges if m == "Err"]
    oks = [x for x, i2, v2 in cb.result_stores("Ok")]
    p = cb.find_path(errs, oks) if errs and oks else None
    ck.expect(bool(errs) and bool(oks) and p is None, "WriteGuard::commit#success-needs-confirmation",
              "Ok(()) only on the Ok outcome of confirm_rx.await",
              "WriteGuard::commit returns Ok although the confirmation did not arrive (an Err outcome of confirm_rx.await is mapped to "
              "Ok): a commit whose value never reached the owner is reported as successful and is lost",
              cb.loc(errs[0]) if errs else cb.loc(0), {"path": [cb.loc(x) for x in (p or [])][:10]})
    f = F.fn("robj::rw_lock::rw_lock::WriteGuard::commit")
    ck.expect(f["inputs"][0].startswith("robj::rw_lock::rw_lock::WriteGuard"), "WriteGuard::commit#by-value",
              "commit consumes the guard", f"commit takes {f['inputs'][0]}", f"{f['file']}:{f['line']}")


def r17_4(ck, F):
    ck.rule("R17.4", "ReadGuard wraps RwLockReadGuard<Value>, Value holds the drop-notification sender: the owner cannot "
            "finish its confirmation loop while a read guard is alive",
            "a writer proceeds while a reader still reads", floor=2)
    g = F.adt_fields("robj::rw_lock::rw_lock::ReadGuard")
    t0 = list(g.values())[0]["ty"]
    ck.expect("RwLockReadGuard" in t0 and "Value<" in t0, "ReadGuard#wraps-read-guard", f"ReadGuard.0: {t0[:80]}",
              f"ReadGuard.0 is {t0}", None)
    v = F.adt_fields("robj::rw_lock::msg::Value")
    ck.expect("dropped_tx" in v and "mpsc" in v["dropped_tx"]["ty"], "Value#dropped_tx", "Value holds dropped_tx",
              "Value has no dropped_tx sender", None)
    c = F.adt_fields("robj::rw_lock::rw_lock::ReadLock")["cache"]["ty"]
    ck.expect("RwLock<std::option::Option<robj::rw_lock::msg::Value" in c, "ReadLock#cache-type", f"cache: {c[:90]}",
              f"ReadLock.cache is {c}", None)


def r17_5(ck, F):
    ck.rule("R17.5", "check-then-wait on the invalidation flag: the cache monitor task spawned by ReadLock::fetch and "
            "ReadGuard::invalidated read the current flag (borrow / borrow_and_update) before their first "
            "changed().await, and re-read it after every wake",
            "a Value that reaches a remote reader with the flag already set: a monitor that waits first never wakes, the "
            "stale Value stays cached, the owner never finishes its write branch and every later request hangs", floor=2)
    cands = []
    for x in F.family(FETCH):
        if x.kind == "coroutine" and any((a.get("fut_fn") or "").endswith("Receiver::changed::{closure#0}") or
                                         "watch" in (a.get("fut_fn") or "") and "changed" in (a.get("fut_fn") or "")
                                         for a in x.awaits()) and x is not F.main_body(FETCH):
            cands.append(("fetch#monitor", x))
    cands.append(("ReadGuard::invalidated", F.main_body("robj::rw_lock::rw_lock::ReadGuard::invalidated")))
    for name, x in cands:
        waits = [a for a in x.awaits() if "changed" in (a.get("fut_fn") or "")]
        checks = [bb for bb, t in x.calls() if (callee(t) or "").endswith(("Receiver::borrow_and_update", "Receiver::borrow"))]
        ok = bool(waits) and bool(checks)
        if ok:
            first = waits[0]
            p = x.find_path([0], [first["poll_bb"]], avoid=checks)
            again = all(any(c in x.reach([w["ready_bb"]]) for c in checks) for w in waits if w.get("ready_bb") is not None)
            ok = p is None and again
        ck.expect(ok, name, "the flag is read before the first wait and after each wake",
                  f"{name} can wait for a change without having looked at the current flag", x.loc(0))
    ck.expect(len(cands) >= 2, "check-then-wait#sites", f"{len(cands)} sites", "monitor task not found", None)


def run(ck, F):
    for r in (r17_1, r17_2, r17_3, r17_4, r17_5):
        ck.run_rule(r)
