"""Fact extraction: run the rustc_private driver over the current source tree.

The source tree is /repo unless $REMOC_SRC names a scratch copy (used by the self-test only).
Every extraction is keyed by a hash of the sources + the driver binary; checks of one run share
it.  Cargo's freshness cache would skip the wrapper, so the member fingerprints are deleted before
each extraction and the presence of a *fresh* fact file is asserted.
"""
import fcntl
import hashlib
import json
import os
import shutil
import subprocess
import sys
import time

VERIF = os.path.dirname(os.path.dirname(os.path.abspath(__file__)))
CACHE = os.path.join(VERIF, ".cache")
DRIVER = os.path.join(VERIF, "driver", "target", "release", "remoc-facts")


def src_root():
    return os.path.abspath(os.environ.get("REMOC_SRC", "/repo"))


def _hash_tree(h, root, subdirs, exts=(".rs", ".toml", ".lock")):
    for sub in subdirs:
        p = os.path.join(root, sub)
        if os.path.isfile(p):
            h.update(sub.encode())
            h.update(open(p, "rb").read())
            continue
        for dp, dn, fn in sorted(os.walk(p)):
            dn[:] = sorted(d for d in dn if d not in ("target", ".git"))
            for f in sorted(fn):
                if f.endswith(exts):
                    fp = os.path.join(dp, f)
                    h.update(os.path.relpath(fp, root).encode())
                    h.update(open(fp, "rb").read())


def source_hash():
    h = hashlib.sha256()
    _hash_tree(h, src_root(), ["Cargo.toml", "Cargo.lock", "remoc", "remoc_macro"])
    _hash_tree(h, VERIF, ["witness/src", "witness/Cargo.toml.in"])
    st = os.stat(DRIVER)
    h.update(f"{st.st_size}:{st.st_mtime_ns}".encode())
    return h.hexdigest()[:16]


def ensure_driver():
    if not os.path.exists(DRIVER):
        subprocess.run([os.path.join(VERIF, "setup.sh")], check=True)


CONFIGS = {
    # name: (extra cargo args for the witness build, crates to dump)
    "default": ([], "remoc,remoc_witness"),
}

REPO_CONFIGS = {
    # configurations compiled in the repo workspace itself (thorough tier)
    "full-codecs": ["-p", "remoc", "--features", "full-codecs"],
    "json-codec": ["-p", "remoc", "--no-default-features", "--features", "full,default-codec-json"],
    "tests": ["-p", "remoc", "--tests"],
}


def _env(facts_dir, target, crates):
    env = dict(os.environ)
    sysroot = subprocess.check_output(["rustc", "+nightly", "--print", "sysroot"], text=True).strip()
    env.update(
        LD_LIBRARY_PATH=sysroot + "/lib",
        RUSTFLAGS="-Zmir-opt-level=0 -Awarnings",
        RUSTC_WRAPPER=DRIVER,
        VERIF_CRATES=crates,
        VERIF_FACTS_DIR=facts_dir,
        CARGO_TARGET_DIR=target,
        CARGO_NET_OFFLINE="true",
        CARGO_INCREMENTAL="0",
    )
    env.pop("RUSTC_WORKSPACE_WRAPPER", None)
    return env


def _drop_fingerprints(target, names):
    fp = os.path.join(target, "debug", ".fingerprint")
    if os.path.isdir(fp):
        for d in os.listdir(fp):
            if any(d.startswith(n + "-") for n in names):
                shutil.rmtree(os.path.join(fp, d), ignore_errors=True)


def _witness_dir(h, tag="repo"):
    """Materialise the witness crate next to the cache with a path dependency on the source tree."""
    wd = os.path.join(CACHE, f"witness-{tag}")
    os.makedirs(os.path.join(wd, "src"), exist_ok=True)
    for f in os.listdir(os.path.join(VERIF, "witness", "src")):
        shutil.copy(os.path.join(VERIF, "witness", "src", f), os.path.join(wd, "src", f))
    tmpl = open(os.path.join(VERIF, "witness", "Cargo.toml.in")).read()
    open(os.path.join(wd, "Cargo.toml"), "w").write(tmpl.replace("@SRC@", src_root()))
    shutil.copy(os.path.join(src_root(), "Cargo.lock"), os.path.join(wd, "Cargo.lock"))
    return wd


def extract(config="default", verbose=True):
    """Return {crate_file_stem: path} of fact files for the current sources under `config`."""
    ensure_driver()
    os.makedirs(CACHE, exist_ok=True)
    # one lock per source root: target and fact directories are per source root, so extractions of different trees
    # (the self-test's scratch worktrees) may run in parallel
    rtag = "repo" if src_root() == "/repo" else hashlib.sha256(src_root().encode()).hexdigest()[:8]
    lock = open(os.path.join(CACHE, "lock" if rtag == "repo" else f"lock-{rtag}"), "w")
    fcntl.flock(lock, fcntl.LOCK_EX)
    try:
        h = source_hash()
        facts_dir = os.path.join(CACHE, "facts", f"{h}-{rtag}-{config}")
        marker = os.path.join(facts_dir, "OK")
        if not os.path.exists(marker):
            # forget older extractions of this configuration
            fdir = os.path.join(CACHE, "facts")
            if os.path.isdir(fdir):
                for d in os.listdir(fdir):
                    if d.endswith(f"-{rtag}-{config}"):
                        shutil.rmtree(os.path.join(fdir, d), ignore_errors=True)
            os.makedirs(facts_dir, exist_ok=True)
            t0 = time.time()
            if config in CONFIGS:
                extra, crates = CONFIGS[config]
                tag = "repo" if src_root() == "/repo" else hashlib.sha256(src_root().encode()).hexdigest()[:8]
                target = os.path.join(CACHE, f"target-witness-{tag}")
                cwd = _witness_dir(h, tag)
                cmd = ["cargo", "+nightly", "check", "--offline"] + extra
                members = ["remoc", "remoc_witness", "remoc_macro"]
            else:
                crates = "remoc,tests"
                tag = "repo" if src_root() == "/repo" else hashlib.sha256(src_root().encode()).hexdigest()[:8]
                target = os.path.join(CACHE, f"target-repo-{tag}")
                cwd = src_root()
                cmd = ["cargo", "+nightly", "check", "--offline"] + REPO_CONFIGS[config]
                members = ["remoc", "remoc_macro"]
            _drop_fingerprints(target, members)
            r = subprocess.run(cmd, cwd=cwd, env=_env(facts_dir, target, crates),
                               stdout=subprocess.PIPE, stderr=subprocess.STDOUT, text=True)
            if r.returncode != 0:
                sys.stdout.write(r.stdout[-6000:])
                raise RuntimeError(f"fact extraction failed (config {config}): cargo exited {r.returncode}")
            files = [f for f in os.listdir(facts_dir) if f.endswith(".json")]
            if not any(f.startswith("remoc.") for f in files):
                raise RuntimeError("fact extraction wrote no remoc fact file (driver skipped?)")
            open(marker, "w").write(json.dumps({"wall_s": time.time() - t0, "files": files}))
            if verbose:
                print(f"[extract] config={config} hash={h} files={files} wall={time.time()-t0:.1f}s")
        elif verbose:
            print(f"[extract] config={config} hash={h} reused")
        out = {}
        for f in os.listdir(facts_dir):
            if f.endswith(".json"):
                out[f[:-5]] = os.path.join(facts_dir, f)
        return out
    finally:
        fcntl.flock(lock, fcntl.LOCK_UN)
        lock.close()
