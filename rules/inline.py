"""MIR-level inlining of local helper functions that no rule knows by name.

Rules are written against the functions the property is anchored in.  `Extract Method` (a few statements of
an anchored function moved into a new private fn / method / async fn) must not change any verdict, in either
direction: code moved into a helper must still be seen (no vacuous pass), and a clause established by the
moved code must still be found (no false alarm).  Facts.body / main_body / family therefore hand out *views*:
the body with every call to a helper spliced in, where a helper is a function of the remoc crate that

  * is called directly (inherent method / free fn, `fn.local`), or is an `async fn` whose future is awaited
    in place (`helper(..).await`),
  * is not named in any rule (ANCHORS = every `a::b` string literal of rules/*.py),
  * is not recursive and is small (<= MAX_BLOCKS blocks, depth <= MAX_DEPTH).

Splicing a plain fn: the call terminator becomes `param_i = arg_i; goto callee.entry`; every `return` of the
callee becomes `dest = _0'; goto call.target`.  Splicing an awaited async fn: the coroutine's captured
parameters become a tuple built from the call's arguments, the poll loop of the `.await` is replaced by the
coroutine's body (its own Yields stay suspension points of the caller), and every `return` becomes
`poll_result = Poll::Ready(_0'); goto <Ready arm>`.  Parameter locals lose their debug names so that
expressions are traced through to the caller's argument expressions.

`Facts.by_dp` / `Facts.bodies` keep the bodies as extracted (rules that enumerate all bodies, and the
panic table of R08.1, use those).
"""
import copy
import glob
import os
import re

MAX_BLOCKS = 400
MAX_DEPTH = 3
_ANCHORS = None


def anchors():
    """Every `x::y` string literal in the rule sources: functions known to some rule by name."""
    global _ANCHORS
    if _ANCHORS is None:
        s = set()
        here = os.path.dirname(os.path.abspath(__file__))
        for f in glob.glob(os.path.join(here, "*.py")):
            if os.path.basename(f) in ("inline.py",):
                continue
            src = open(f).read()
            for m in re.finditer(r"""(?:"([^"\n]*::[^"\n]*)"|'([^'\n]*::[^'\n]*)')""", src):
                lit = m.group(1) or m.group(2)
                for part in re.split(r"[\s,|()\[\]{}<>$^\\]+", lit):
                    part = part.strip(".*+?")
                    if "::" in part and len(part) >= 6:
                        s.add(part)
            # bare identifiers used as name suffixes (`callee.endswith("get_next_ping")`): last-segment anchors
            for m in re.finditer(r"""["']([a-z_][a-z0-9_]{3,})["']""", src):
                s.add("::" + m.group(1))
        # functions with triaged panic sites keep their identity (spec/panic_allow.json keys are `<fn>|<construct>|<n>`)
        try:
            import json
            tab = json.load(open(os.path.join(os.path.dirname(here), "spec", "panic_allow.json")))["sites"]
            for k in tab:
                s.add(k.split("|")[0])
        except (OSError, KeyError, ValueError):
            pass
        _ANCHORS = s
    return _ANCHORS


def is_anchor(path):
    from mir import strip_generics
    p = strip_generics(path)
    segs = p.split("::")
    tail2 = "::".join(segs[-2:])
    for a in anchors():
        if a == p or p.endswith("::" + a) or a == tail2 or a.endswith("::" + tail2):
            return True
        if a.startswith("::") and p.endswith(a):
            return True
    return False


def _ren_proj(x, off):
    if isinstance(x, str) and x.startswith("[_"):
        return "[_%d]" % (int(x[2:-1]) + off)
    return x


def _ren_place(p, off):
    return [p[0] + off] + [_ren_proj(x, off) for x in p[1:]]


def _ren_op(o, off):
    if isinstance(o, list) and o and o[0] in ("c", "m"):
        return [o[0], _ren_place(o[1], off)]
    return o


def _ren_rv(rv, off):
    rv = dict(rv)
    for k in ("o", "a", "b"):
        if k in rv and isinstance(rv[k], list):
            rv[k] = _ren_op(rv[k], off)
    if "ops" in rv:
        rv["ops"] = [_ren_op(o, off) for o in rv["ops"]]
    if "p" in rv:
        rv["p"] = _ren_place(rv["p"], off)
    return rv


def _ren_stmt(s, off):
    s = dict(s)
    if "p" in s:
        s["p"] = _ren_place(s["p"], off)
    if "rv" in s:
        s["rv"] = _ren_rv(s["rv"], off)
    if "local" in s:
        s["local"] = s["local"] + off
    return s


def _ren_bb(x, boff):
    return x + boff if isinstance(x, int) else x


def _ren_term(t, off, boff):
    t = dict(t)
    for k in ("tgt", "unw", "otherwise", "resume", "drop", "imag"):
        if k in t:
            t[k] = _ren_bb(t[k], boff)
    if "targets" in t:
        t["targets"] = [[v, _ren_bb(b, boff)] for v, b in t["targets"]]
    for k in ("o", "cond", "v"):
        if k in t and isinstance(t[k], list):
            t[k] = _ren_op(t[k], off)
    if "a" in t:
        t["a"] = [_ren_op(o, off) for o in t["a"]]
    for k in ("d", "p", "ra"):
        if k in t and isinstance(t[k], list):
            t[k] = _ren_place(t[k], off)
    return t


def _copy_in(j, cj, strip_arg_names):
    """Append the locals and blocks of callee json `cj` to `j`; returns (local offset, block offset)."""
    off = len(j["locals"])
    boff = len(j["blocks"])
    for i, l in enumerate(cj["locals"]):
        l = dict(l)
        if strip_arg_names and 1 <= i <= cj["arg_count"]:
            l.pop("name", None)
            l.pop("user", None)
        j["locals"].append(l)
    for blk in cj["blocks"]:
        nb = {"s": [_ren_stmt(s, off) for s in blk["s"]], "t": _ren_term(blk["t"], off, boff)}
        if blk.get("cleanup"):
            nb["cleanup"] = True
        nb["inl"] = cj["path"]
        j["blocks"].append(nb)
    return off, boff


def _assign(place, rv, line):
    return {"k": "assign", "l": line, "p": place, "rv": rv, "x": True, "xm": "inlined"}


class Inliner:
    def __init__(self, facts):
        self.F = facts
        self.cache = {}
        self.inlined = {}       # dp of view -> sorted list of helper paths spliced in
        self.spliced = set()    # (crate, dp) of helpers spliced somewhere
        self.spliced_async = set()

    # ------------------------------------------------------------------ eligibility
    def _sync_callee(self, b, t, stack, async_outer=False):
        fn = t.get("fn")
        if not fn or not fn.get("local"):
            return None
        dp = fn.get("resolved_dp") or fn.get("dp")
        c = self.F.by_dp.get((b.crate, dp))
        if c is None or c.kind not in ("fn", "assoc_fn") or c.crate != "remoc":
            return None
        if c.dp in stack or c.n > MAX_BLOCKS or len(stack) >= MAX_DEPTH:
            return None
        from mir import strip_generics
        info = self.F.fns.get(c.path) or self.F.fns.get(strip_generics(c.path)) or {}
        is_async = bool(info.get("async")) or (any(k.kind == "coroutine" for k in self.F.children.get((c.crate, c.dp), [])) and c.n <= 8)
        if is_async != async_outer:
            return None     # the outer fn of an `async fn` only builds the coroutine: spliced last (spawned / stored futures)
        if is_anchor(c.path):
            return None
        if len(t["a"]) != c.arg_count:
            return None
        return c

    def _async_callee(self, b, rec, stack):
        """(helper fn body, its coroutine body, bb of the creating call) for `helper(..).await`, or None."""
        from mir import strip_generics, callee
        ff = rec.get("fut_fn") or ""
        if not ff.endswith("::{closure#0}") or rec.get("poll_bb") is None or rec.get("ready_bb") is None:
            return None
        calls = [o for o in rec.get("src", ()) if o.kind == "call"]
        if len(rec.get("src", ())) != 1 or len(calls) != 1:
            return None
        cb = calls[0].detail[0]
        t = b.term(cb)
        fn = t.get("fn")
        if not fn or not fn.get("local"):
            return None
        h = self.F.by_dp.get((b.crate, fn.get("resolved_dp") or fn.get("dp")))
        if h is None or h.crate != "remoc" or h.kind not in ("fn", "assoc_fn") or h.dp in stack or len(stack) >= MAX_DEPTH:
            return None
        if strip_generics(h.path) + "::{closure#0}" != strip_generics(ff) or is_anchor(h.path):
            return None
        kids = [k for k in self.F.children.get((h.crate, h.dp), []) if k.kind == "coroutine"]
        if len(kids) != 1 or kids[0].n > MAX_BLOCKS:
            return None
        co = kids[0]
        # the outer fn must just build the coroutine from its parameters, in order
        aggs = [s for blk in h.blocks for s in blk["s"] if s["k"] == "assign" and s["rv"]["r"] == "agg" and s["rv"].get("dp") == co.dp]
        if len(aggs) != 1:
            return None
        ops = aggs[0]["rv"]["ops"]
        if [o[1] for o in ops if o[0] != "k"] != [[i] for i in range(1, h.arg_count + 1)] or len(ops) != h.arg_count:
            return None
        if len(t["a"]) != h.arg_count:
            return None
        # instrumented helpers wrap the user code once more: leave those alone
        if any((callee(tt) or "").endswith("Instrument::instrument") for _, tt in co.calls()):
            return None
        return h, co, cb

    # ------------------------------------------------------------------ view
    def view(self, b, stack=()):
        key = (b.crate, b.dp)
        if key in self.cache and not stack:
            return self.cache[key]
        if b.crate not in ("remoc",) and not b.crate.startswith("remoc"):
            return b
        from mir import Body
        j = None
        used = []
        used_dps = []
        cur = b
        for _round in range(80):
            changed = False
            if cur.kind == "coroutine":
                for rec in cur.awaits():
                    got = self._async_callee(cur, rec, stack + (b.dp,))
                    if got is None:
                        continue
                    h, co, cb = got
                    cv = self.view(co, stack + (b.dp, h.dp))
                    if j is None:
                        j = dict(b.j)
                        j["locals"] = list(b.j["locals"])
                        j["blocks"] = [dict(x) for x in b.j["blocks"]]
                    off, boff = _copy_in(j, cv.j, False)
                    # upvar names of the helper's coroutine would be resolved against the caller: drop the env root
                    t = cur.term(cb)
                    line = t.get("l")
                    env = off + 1
                    nb = dict(j["blocks"][cb])
                    nb["s"] = list(nb["s"]) + [_assign([env], {"r": "agg", "kind": "tuple", "ops": list(t["a"])}, line)]
                    nb["t"] = ({"t": "goto", "tgt": t["tgt"], "l": line, "x": True, "xm": "inlined", "inl_call": h.path}
                               if t["tgt"] is not None else {"t": "unreachable", "l": line})
                    j["blocks"][cb] = nb
                    # entry into the poll loop: the loop head is the target of the goto after the resume
                    yt = cur.term(rec["yield_bb"])
                    head = cur.term(yt["resume"]).get("tgt")
                    pt = cur.term(rec["poll_bb"])
                    for p in cur.pred[head]:
                        if p != yt["resume"] and p in cur.reachable:
                            pb = dict(j["blocks"][p])
                            tt = dict(pb["t"])
                            for k in ("tgt",):
                                if tt.get(k) == head:
                                    tt[k] = boff
                            pb["t"] = tt
                            j["blocks"][p] = pb
                    for k in range(boff, len(j["blocks"])):
                        kt = j["blocks"][k]["t"]
                        if kt["t"] == "return" and not j["blocks"][k].get("ret_done"):
                            blk2 = j["blocks"][k]
                            blk2["s"] = list(blk2["s"]) + [_assign(list(pt["d"]), {"r": "agg", "kind": "adt", "adt": "std::task::Poll",
                                                                                    "variant": "Ready", "fields": ["0"], "args": [],
                                                                                    "ops": [["m", [off]]]}, line)]
                            blk2["t"] = {"t": "goto", "tgt": rec["ready_bb"], "l": line, "x": True, "xm": "inlined"}
                            blk2["ret_done"] = True
                    # the replaced poll loop is dead now
                    tmp = Body(self.F, b.crate, j)
                    live = tmp.reachable
                    for k in range(len(j["blocks"])):
                        if k not in live and not j["blocks"][k].get("cleanup") and k < boff:
                            if k in cur.reachable:
                                j["blocks"][k] = {"s": [], "t": {"t": "unreachable", "l": line}}
                    used.append(h.path)
                    used_dps.append(h.dp)
                    used_dps.append(co.dp)
                    used_dps.extend(getattr(cv, "inlined_dps", ()))
                    self.spliced.add((h.crate, h.dp))
                    self.spliced_async.add((h.crate, h.dp))
                    changed = True
                    break
            # plain calls (second mode: outer fns of async fns whose future is not awaited in place)
            for mode, bb in ([(False, x) for x in range(cur.n)] + [(True, x) for x in range(cur.n)] if not changed else []):
                blk = cur.blocks[bb]
                t = blk["t"]
                if t["t"] != "call" or blk.get("cleanup") or bb not in cur.reachable:
                    continue
                c = self._sync_callee(cur, t, stack + (b.dp,), mode)
                if c is None:
                    continue
                cv = self.view(c, stack + (b.dp,))
                if j is None:
                    j = dict(b.j)
                    j["locals"] = list(b.j["locals"])
                    j["blocks"] = [dict(x) for x in b.j["blocks"]]
                off, boff = _copy_in(j, cv.j, True)
                line = t.get("l")
                nb = dict(j["blocks"][bb])
                nb["s"] = list(nb["s"]) + [_assign([off + 1 + i], {"r": "use", "o": a}, line) for i, a in enumerate(t["a"])]
                nb["t"] = {"t": "goto", "tgt": boff, "l": line, "x": True, "xm": "inlined", "inl_call": c.path}
                j["blocks"][bb] = nb
                for k in range(boff, len(j["blocks"])):
                    kt = j["blocks"][k]["t"]
                    if kt["t"] == "return" and not j["blocks"][k].get("ret_done"):
                        blk2 = j["blocks"][k]
                        blk2["s"] = list(blk2["s"]) + [_assign(list(t["d"]), {"r": "use", "o": ["m", [off]]}, line)]
                        blk2["t"] = ({"t": "goto", "tgt": t["tgt"], "l": line, "x": True, "xm": "inlined"} if t["tgt"] is not None
                                     else {"t": "unreachable", "l": line})
                        blk2["ret_done"] = True
                used.append(c.path)
                used_dps.append(c.dp)
                used_dps.extend(getattr(cv, "inlined_dps", ()))
                self.spliced.add((c.crate, c.dp))
                changed = True
                break
            if not changed:
                break
            cur = Body(self.F, b.crate, j)
        if j is None:
            if not stack:
                self.cache[key] = b
            return b
        out = Body(self.F, b.crate, j)
        out.inlined_helpers = sorted(set(used))
        out.inlined_dps = sorted(set(used_dps))
        out.raw = b
        if not stack:
            self.cache[key] = out
            self.inlined[key] = out.inlined_helpers
        return out
