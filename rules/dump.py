#!/usr/bin/env python3
"""Debug helper: pretty-print the extracted MIR of a body.  usage: dump.py <body path regex> [-u]"""
import os
import re
import sys

sys.path.insert(0, os.path.dirname(os.path.abspath(__file__)))
import extract  # noqa: E402
import mir  # noqa: E402


def pl(p):
    s = f"_{p[0]}"
    for x in p[1:]:
        if x == "*":
            s = f"(*{s})"
        else:
            s += x
    return s


def op(o):
    if o[0] == "k":
        k = o[1]
        if isinstance(k, dict):
            if "fn" in k:
                return "fn:" + mir.strip_generics(k["fn"]["def"])
            if "def" in k:
                return f"const {k['def']}={k.get('v')}"
            return f"{k.get('v', k.get('str', '?'))}:{k.get('ty')}"
        return str(k)
    return ("move " if o[0] == "m" else "") + pl(o[1])


def rv(r):
    k = r["r"]
    if k == "use":
        return op(r["o"])
    if k == "ref":
        return f"&{r['m']} {pl(r['p'])}"
    if k == "bin":
        return f"{r['op']}({op(r['a'])}, {op(r['b'])})"
    if k == "un":
        return f"{r['op']}({op(r['a'])})"
    if k == "cast":
        return f"{op(r['o'])} as {r['ty']} [{r['kind']}]"
    if k == "discr":
        return f"discr({pl(r['p'])}) {[v[1] for v in r.get('variants', [])]}"
    if k == "agg":
        if r["kind"] == "adt":
            return f"{r['adt']}::{r['variant']} {{ " + ", ".join(f"{f}: {op(o)}" for f, o in zip(r["fields"], r["ops"])) + " }"
        return f"{r['kind']}({r.get('def', '')})[" + ", ".join(op(o) for o in r["ops"]) + "]"
    return str(r)


def dump(b, unwind=False):
    print(f"== {b.path} [{b.kind}] {b.file}:{b.line} blocks={b.n} upvars={b.upvars}")
    for i, l in enumerate(b.locals):
        if l.get("name"):
            print(f"   _{i}: {l['name']}: {l['ty'][:100]}")
    for bb, blk in enumerate(b.blocks):
        if blk.get("cleanup") and not unwind:
            continue
        if bb not in b.reachable:
            continue
        print(f" bb{bb}:")
        for s in blk["s"]:
            if s["k"] == "assign":
                print(f"    {s.get('l')}: {pl(s['p'])} = {rv(s['rv'])}")
            elif s["k"] == "setdiscr":
                print(f"    {s.get('l')}: discr({pl(s['p'])}) = {s['variant']}")
        t = blk["t"]
        k = t["t"]
        if k == "call":
            c = mir.callee(t) or f"<indirect {op(t['f'])}>"
            extra = ""
            if t.get("fn", {}).get("trait"):
                extra = f"  [self={t['fn'].get('self_ty', '')[:80]} resolved={t['fn'].get('resolved')}]"
            print(f"    {t.get('l')}: {pl(t['d'])} = {c}({', '.join(op(a) for a in t['a'])}) -> bb{t['tgt']}{extra}")
        elif k == "switch":
            print(f"    {t.get('l')}: switch {op(t['o'])} {[(v, f'bb{b2}') for v, b2 in t['targets']]} else bb{t['otherwise']}")
        elif k == "yield":
            print(f"    {t.get('l')}: YIELD -> bb{t['resume']} (drop bb{t['drop']})")
        elif k == "drop":
            print(f"    {t.get('l')}: drop({pl(t['p'])}) -> bb{t['tgt']}")
        elif k == "assert":
            print(f"    {t.get('l')}: assert {op(t['cond'])}=={t['expected']} [{t['msg']}] -> bb{t['tgt']}")
        else:
            print(f"    {t.get('l')}: {k} -> {mir.Body.term_succ(t)}")


if __name__ == "__main__":
    F = mir.Facts(extract.extract(verbose=False))
    pat = re.compile(sys.argv[1])
    for k, b in sorted(F.bodies.items()):
        if pat.search(k):
            dump(b, "-u" in sys.argv)
