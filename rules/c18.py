"""C18 — I/O channels deliver exactly the written bytes; short streams are errors."""
import mir
from mir import callee
from common import *  # noqa: F401,F403

EXPLANATION = (
    "Static rules for the byte-stream adapters: R18.1 counted = sent: in io::Sender::poll_write the length of the slice "
    "copied into the send future and the increment of bytes_written are the same value; R18.2 clamp: that length is "
    "min(min(buf.len(), expected - bytes_written), chunk_size) in sized mode (min(buf.len(), chunk_size) otherwise) and an "
    "over-long write returns WriteZero under bytes_written >= expected; R18.3 shutdown returns Ok in sized mode only "
    "under bytes_written == expected (UnexpectedEof otherwise) and announces bytes_written in unsized mode; R18.4 "
    "reader: eof_verified is set only under bytes_read == expected, remaining_allowed == Some(0) or already-consumed size "
    "information; the copied length is clamped by the remaining allowed bytes and is exactly what bytes_read is "
    "incremented by; both size-mismatch sites return UnexpectedEof. Byte equality for all splits and the race between "
    "data end and the size message are not decided."
)
ASSUMPTIONS = ["chmux delivers the frames of the underlying bin channel byte-exact and in order (C01)",
               "tokio AsyncRead/AsyncWrite contracts (ReadBuf::put_slice appends exactly the slice)"]
NOT_DECIDED = ["byte equality for all partitions into writes and reads", "race between data end-of-stream and the size message"]

PW = "<rch::io::sender::Sender<Codec> as tokio::io::AsyncWrite>::poll_write"
PS = "<rch::io::sender::Sender<Codec> as tokio::io::AsyncWrite>::poll_shutdown"
PR = "<rch::io::receiver::Receiver<Codec> as tokio::io::AsyncRead>::poll_read"


def _min_leaves(e):
    e = mir.strip_casts(e)
    if isinstance(e, tuple) and e and e[0] == "call" and e[1] in ("std::cmp::Ord::min", "std::cmp::min"):
        out = []
        for a in e[2]:
            out.extend(_min_leaves(a))
        return out
    if isinstance(e, tuple) and e and e[0] == "var" and e[3]:
        out = []
        for d in e[3]:
            out.extend(_min_leaves(d))
        return out
    return [e]


def r18_1(ck, F):
    ck.rule("R18.1", "counted = sent: the end of the slice range copied into the send future equals the amount added to "
            "bytes_written", "bytes_written drifts from what was sent: shutdown verifies / announces a wrong total", floor=1)
    b = F.body(PW)
    adds = [(bb, i, b.expr(s["rv"]["o"])) for bb, i, s in b.field_stores("bytes_written") if s["rv"]["r"] == "use"]
    rng = [(bb, i, b.expr(rv["ops"][0])) for bb, i, rv in b.aggregates("std::ops::RangeTo")]
    cp = [bb for bb, t in b.calls("bytes::Bytes::copy_from_slice")]
    ok = len(adds) == 1 and len(rng) == 1 and bool(cp)
    if ok:
        ar = arith(adds[0][2])
        ok = ar is not None and ar[0] == "Add" and mir.same_value(mir.strip_casts(ar[2]), rng[0][2])
    ck.expect(ok, "poll_write#counted-equals-sent", "bytes_written += n and the copied slice is buf[..n] for the same n",
              "the number of bytes counted differs from the number of bytes handed to the channel", b.loc(adds[0][0]) if adds else b.loc(0))


# named here so that they stay calls in the views (inline.py treats every `a::b` literal of the rule sources as known)
KEEP_CALLS = ("io::sender::Sender::poll_chunk_size", "io::sender::Sender::poll_complete")


def r18_2(ck, F):
    ck.rule("R18.2", "clamp: the write length is a minimum over buf.len(), the remaining announced size (sized mode) and "
            "the chunk size; WriteZero is returned under bytes_written >= expected",
            "a write beyond the announced size is transmitted (receiver sees more bytes than announced)", floor=2)
    b = F.body(PW)
    rng = [b.expr(rv["ops"][0]) for bb, i, rv in b.aggregates("std::ops::RangeTo")]
    if not rng:
        raise mir.AnchorMissing("slice range in poll_write")
    leaves = _min_leaves(rng[0])
    sh = [mir.show(x) for x in leaves]
    has_len = any("len" in s and "buf" in s for s in sh)
    has_chunk = any("poll_chunk_size" in s or "chunk_size" in s for s in sh)
    has_rem = any((lambda a: a is not None and a[0] == "Sub" and "bytes_written" in mir.show(a[2]))(arith(l)) for l in leaves)
    ck.expect(has_len and has_chunk and has_rem, "poll_write#clamp", f"write length = min over {sh}",
              f"write length {sh} is not clamped by buf.len(), remaining size and chunk size", b.loc(0))
    wz = []
    for bb, t in b.calls("std::io::Error::new"):
        e = b.expr(t["a"][0])
        if "WriteZero" in mir.show(e) or (e[0] == "agg" and e[2] == "WriteZero"):
            wz.append(bb)
    ok = bool(wz)
    for bb in wz:
        ce = conds(b, bb)
        ok = ok and any(e[0] == "bin" and e[1] == "Ge" and "bytes_written" in mir.show(e[2]) and m is True for e, m in ce)
    ck.expect(ok, "poll_write#write-zero", "WriteZero under bytes_written >= expected",
              "over-long writes are not refused with WriteZero when the announced size is reached", b.loc(wz[0]) if wz else b.loc(0))


def r18_3(ck, F):
    ck.rule("R18.3", "shutdown: Ok in the Known arm only under bytes_written == expected, otherwise UnexpectedEof; the "
            "Unknown arm sends bytes_written on the size channel",
            "a short sized stream shuts down successfully (silent truncation), or the receiver never learns the size", floor=2)
    b = F.body(PS)
    eqs = [s for s in b.reachable if b.term(s)["t"] == "switch" and
           (lambda e: e[0] == "bin" and e[1] == "Eq" and "bytes_written" in mir.show(e))(switch_expr(b, s))]
    ue = [bb for bb, t in b.calls("std::io::Error::new") if "UnexpectedEof" in mir.show(b.expr(t["a"][0]))]
    ok = bool(eqs) and bool(ue)
    if ok:
        t = b.term(eqs[0])
        false_t = [tb for v, tb in t["targets"] if v == "0"]
        ok = any(u in b.reach(false_t) for u in ue)
    ck.expect(ok, "poll_shutdown#known", "size checked; mismatch -> UnexpectedEof",
              "sized shutdown does not compare bytes_written with the announced size", b.loc(0))
    snd = [(bb, t) for bb, t in b.calls() if (callee(t) or "").endswith("oneshot::sender::Sender::send")]
    ok = bool(snd) and any("bytes_written" in mir.show(b.expr(t["a"][1])) for bb, t in snd)
    ck.expect(ok, "poll_shutdown#unknown", "announces bytes_written", "unsized shutdown does not announce bytes_written", b.loc(0))


def r18_4(ck, F):
    ck.rule("R18.4", "reader: every store eof_verified = true is control-dependent on a size agreement (bytes_read == "
            "expected), on remaining_allowed == Some(0), or on the size information having been consumed already; "
            "to_copy is clamped by the remaining allowed bytes and bytes_read grows by exactly the copied length; size "
            "mismatches return UnexpectedEof",
            "end-of-file reported successfully although fewer bytes than announced arrived", floor=5)
    n = 0
    for fn in ("rch::io::receiver::Receiver::poll_complete", "rch::io::receiver::Receiver::start_eof_verification", PR):
        b = F.body(fn)
        for bb, i, s in b.field_stores("eof_verified"):
            if s["rv"]["r"] != "use" or const_value(b.expr(s["rv"]["o"])) != 1:
                continue
            n += 1
            ce = conds(b, bb)
            ok = False
            for e, m in ce:
                sh = mir.show(e)
                if e[0] == "bin" and e[1] == "Ne" and "bytes_read" in sh and m is False:
                    ok = True
                if e[0] == "bin" and e[1] == "Eq" and "bytes_read" in sh and m is True:
                    ok = True
                if e[0] == "discr" and m == "None":
                    ok = True       # size info already consumed
                if e[0] == "call" and e[1].endswith("PartialEq::eq") and m is True and "remaining_allowed" in sh:
                    ok = True
                if e[0] == "bin" and e[1] == "Eq" and m is True and ("remaining" in sh or "saturating_sub" in sh):
                    ok = True
            ck.expect(ok, f"{fn.split('::')[-1]}#eof_verified{n}", "EOF accepted only after the size agreed",
                      f"eof_verified is set at {b.loc(bb, i)} without a size agreement (guards: {[mir.show(e)[:50] for e, _ in ce][:4]})",
                      b.loc(bb, i))
    b = F.body(PR)
    adds = [b.expr(s["rv"]["o"]) for bb, i, s in b.field_stores("bytes_read") if s["rv"]["r"] == "use"]
    adv = [(bb, t) for bb, t in b.calls() if (callee(t) or "").endswith("Buf::advance")]
    ok = len(adds) == 1 and bool(adv)
    if ok:
        ar = arith(adds[0])
        amount = mir.strip_casts(ar[2]) if ar is not None and ar[0] == "Add" else None
        ok = amount is not None and mir.same_value(amount, b.expr(adv[0][1]["a"][1]))
        leaves = [mir.show(x) for x in _min_leaves(amount)] if amount is not None else []
        ok = ok and any("remaining" in s for s in leaves)
    ck.expect(ok, "poll_read#counted-equals-copied", "bytes_read += to_copy, to_copy clamped by the remaining allowed bytes",
              "bytes_read is not incremented by exactly the (clamped) copied length", b.loc(0))
    ue = 0
    for fn in ("rch::io::receiver::Receiver::poll_complete", "rch::io::receiver::Receiver::start_eof_verification"):
        x = F.body(fn)
        ue += sum(1 for bb, t in x.calls("std::io::Error::new") if "UnexpectedEof" in mir.show(x.expr(t["a"][0])))
    ck.expect(ue >= 2, "reader#mismatch-errors", f"{ue} UnexpectedEof sites", f"only {ue} size-mismatch error sites", None)


def r18_5(ck, F):
    ck.rule("R18.5", "accounting state travels with the half: Serialize for io::Sender writes self.bytes_written into the "
            "transported form and Deserialize initialises bytes_written (and the size mode) from it",
            "a sized sender moved to another endpoint after some bytes were written: the new holder may write the full "
            "size again, shutdown succeeds and the receiver silently loses the tail", floor=2)
    ser = [b for k, b in F.bodies.items() if k.startswith("<rch::io::sender::Sender") and k.endswith("Serialize>::serialize")]
    de = [b for k, b in F.bodies.items() if k.startswith("<rch::io::sender::Sender") and "Deserialize" in k and k.endswith("::deserialize")]
    if not ser or not de:
        raise mir.AnchorMissing("Serialize / Deserialize for io::Sender")
    ok = False
    for bb, i, rv in ser[0].aggregates("rch::io::sender::TransportedSender"):
        e = ser[0].expr(rv["ops"][rv["fields"].index("bytes_written")])
        ok = e == ("path", "self.bytes_written")
    ck.expect(ok, "io::Sender::serialize#bytes_written", "bytes_written is transported", "bytes_written is not transported", ser[0].loc(0))
    ok = False
    for bb, i, rv in de[0].aggregates("rch::io::sender::Sender"):
        e = de[0].expr(rv["ops"][rv["fields"].index("bytes_written")])
        ok = mir.last_field(e) == "bytes_written" and e[0] != "const"
        e2 = de[0].expr(rv["ops"][rv["fields"].index("size_mode")])
        ok = ok and "size_mode" in mir.field_leaves(e2)
    ck.expect(ok, "io::Sender::deserialize#bytes_written", "bytes_written and size_mode restored from the transported form",
              "the received sender does not restore bytes_written / size_mode from the transported form", de[0].loc(0))


def r18_6(ck, F):
    ck.rule("R18.6", "the reader keeps a received buffer until it is drained: in poll_read `current_buf = None` is stored "
            "only under has_remaining() == false (a DataBuf may consist of several pieces; chunk() is only the first)",
            "more data in flight than receive_buffer (slow reader): a message split at a credit boundary arrives in "
            "pieces, the tail pieces are thrown away with the buffer and the stream has holes", floor=1)
    b = F.body(PR)
    n = 0
    for bb, i, s in b.field_stores("current_buf"):
        rv = s["rv"]
        val = b.expr(rv["o"]) if rv["r"] == "use" else ("agg", rv.get("adt"), rv.get("variant"), ())
        if not (val[0] == "agg" and val[2] == "None"):
            continue
        n += 1
        ce = conds(b, bb)
        ok = any(e[0] == "call" and e[1].endswith("Buf::has_remaining") and m is False for e, m in ce)
        ck.expect(ok, f"poll_read#drop-buffer{n}", "buffer dropped only when nothing remains",
                  f"current_buf is discarded at {b.loc(bb, i)} without has_remaining() being false", b.loc(bb, i))
    ck.expect(n >= 1, "poll_read#drop-buffer-sites", f"{n} site(s)", "no site clearing current_buf found", b.loc(0))


def run(ck, F):
    for r in (r18_1, r18_2, r18_3, r18_4, r18_5, r18_6):
        ck.run_rule(r)
