"""Shared helpers for the observable-collection properties (C13, C14)."""
import mir
from mir import callee
from common import controlling_edges, switch_expr, switch_meaning

OBSERVABLES = {
    # adt path: (file, inner field, event enum, mirror inner adt, subscription adt, mirrored adt)
    "robs::vec::ObservableVec": ("robs/vec.rs", "v", "robs::vec::VecEvent", "robs::vec::MirroredVecInner",
                                 "robs::vec::VecSubscription", "robs::vec::MirroredVec"),
    "robs::vec_deque::ObservableVecDeque": ("robs/vec_deque.rs", "v", "robs::vec_deque::VecDequeEvent",
                                            "robs::vec_deque::MirroredVecDequeInner",
                                            "robs::vec_deque::VecDequeSubscription", "robs::vec_deque::MirroredVecDeque"),
    "robs::hash_map::ObservableHashMap": ("robs/hash_map.rs", "hm", "robs::hash_map::HashMapEvent",
                                          "robs::hash_map::MirroredHashMapInner",
                                          "robs::hash_map::HashMapSubscription", "robs::hash_map::MirroredHashMap"),
    "robs::hash_set::ObservableHashSet": ("robs/hash_set.rs", "hs", "robs::hash_set::HashSetEvent",
                                          "robs::hash_set::MirroredHashSetInner",
                                          "robs::hash_set::HashSetSubscription", "robs::hash_set::MirroredHashSet"),
    "robs::list::ObservableList": ("robs/list.rs", None, "robs::list::ListEvent", "robs::list::MirroredListInner",
                                   "robs::list::ListSubscription", "robs::list::MirroredList"),
}

STD_COLLECTION_PREFIXES = (
    "std::vec::Vec::", "std::collections::VecDeque::", "std::collections::HashMap::", "std::collections::HashSet::",
    "std::collections::hash_map::OccupiedEntry::", "std::collections::hash_map::VacantEntry::",
    "std::collections::hash_map::Entry::", "std::slice::", "core::slice::",
)

# calls that take &mut but do not change the observable contents
NON_MUTATING = {"iter_mut", "get_mut", "as_mut_slice", "as_mut", "entry", "reserve", "reserve_exact", "first_mut",
                "last_mut", "front_mut", "back_mut", "make_contiguous", "get", "key", "into_mut", "iter", "borrow_mut"}

GROWING = {"std::vec::Vec::push", "std::vec::Vec::insert", "std::vec::Vec::resize",
           "std::collections::VecDeque::push_back", "std::collections::VecDeque::push_front",
           "std::collections::VecDeque::insert", "std::collections::VecDeque::resize",
           "std::collections::HashMap::insert", "std::collections::HashSet::insert",
           "std::vec::Vec::extend", "std::collections::VecDeque::extend", "std::vec::Vec::append",
           "std::vec::Vec::resize_with", "std::collections::VecDeque::resize_with",
           "std::vec::Vec::extend_from_slice", "std::iter::Extend::extend"}


def std_mutators(b, fields=None):
    """(bb, callee) of calls in body `b` that mutate a std collection (receiver is &mut).  With
    `fields`, only calls whose receiver expression ends in one of these field names count (the
    observed / mirrored collection itself, not helper collections of the method)."""
    out = []
    for bb, t in b.calls():
        c = callee(t)
        if not c or not c.startswith(STD_COLLECTION_PREFIXES):
            continue
        if fields is not None and (not t["a"] or mir.last_field(b.expr(t["a"][0])) not in fields):
            continue
        if t["fn"].get("recv") != "mut" and not c.startswith(("std::collections::hash_map::OccupiedEntry::",
                                                                "std::collections::hash_map::VacantEntry::")):
            continue
        name = c.split("::")[-1]
        if name in NON_MUTATING:
            continue
        if c.startswith("std::collections::hash_map::") and name not in ("insert", "remove", "remove_entry", "insert_entry"):
            continue
        out.append((bb, c))
    # index assignment `v[i] = x` : IndexMut::index_mut followed by a store -> counts as mutator "index_mut"
    for bb, t in b.calls("std::ops::IndexMut::index_mut"):
        if fields is not None and mir.last_field(b.expr(t["a"][0])) not in fields:
            continue
        out.append((bb, "std::ops::IndexMut::index_mut"))
    return out


def event_arms(b, enum_adt):
    """For a body matching on a value of `enum_adt`: {variant: (switch_bb, target_bb, exclusive region)}.
    Also returns the switch block and whether the fall-through is unreachable."""
    best = None
    for s in sorted(b.reachable):
        t = b.term(s)
        if t["t"] != "switch":
            continue
        o = t["o"]
        if o[0] == "k":
            continue
        for d in b.defs.get(o[1][0], []):
            if d[0] == "assign" and d[3]["rv"]["r"] == "discr" and d[3]["rv"].get("adt") == enum_adt:
                if best is None or len(t["targets"]) > len(b.term(best)["targets"]):
                    best = s
    if best is None:
        raise mir.AnchorMissing(f"match on {enum_adt} in {b.path}")
    t = b.term(best)
    arms = {}
    targets = [(switch_meaning(b, best, v), tb) for v, tb in t["targets"]]
    oth = t["otherwise"]
    oth_unreachable = b.term(oth)["t"] == "unreachable"
    wildcard = False
    if not oth_unreachable:
        rest = switch_meaning(b, best, None)
        if isinstance(rest, tuple):
            for name in rest:
                targets.append((name, oth))      # the otherwise edge stands for every remaining variant
            if len(rest) == 1:
                oth_unreachable = True
            else:
                wildcard = True
    by_target = {}
    for name, tb in targets:
        by_target.setdefault(tb, []).append(name)
    reach = {tb: b.reach([tb], avoid=[best]) for tb in by_target}
    for tb, names in by_target.items():
        others = set()
        for t2, r in reach.items():
            if t2 != tb:
                others |= r
        for name in names:
            arms[name] = (best, tb, reach[tb] - others)
    return arms, best, oth_unreachable and not wildcard
