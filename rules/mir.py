"""Fact base and MIR primitives (P1-P9 of DESIGN.md) over the JSON emitted by driver/.

Nothing here is specific to one property.  All graph queries run on the *normal* control flow
graph: unwind edges and cleanup blocks are ignored (panics are out of scope except for C08, which
looks at the diverging constructs themselves).
"""
import json
import os
import re
from collections import defaultdict, deque


class AnchorMissing(Exception):
    """An item a rule talks about (function, ADT, field, call) was not found: fail closed."""


def strip_generics(s):
    """`tokio::sync::mpsc::Sender::<T>::send` -> `tokio::sync::mpsc::Sender::send`."""
    out = []
    depth = 0
    i = 0
    while i < len(s):
        c = s[i]
        if c == "<":
            # `::<` opens a generic list to drop; a leading `<` (qualified path) is kept
            if depth > 0 or (i >= 2 and s[i - 2:i] == "::"):
                if depth == 0 and out[-2:] == [":", ":"]:
                    out = out[:-2]
                depth += 1
                i += 1
                continue
        if depth > 0:
            if c == "<":
                depth += 1
            elif c == ">" and s[i - 1] != "-":
                depth -= 1
            i += 1
            continue
        out.append(c)
        i += 1
    return "".join(out)


class Origin(tuple):
    """(kind, detail, path) — where a value comes from.

    kind: 'const' (detail = value string, path = ()) | 'constdef' (named constant; detail = def)
          | 'arg' / 'upvar' (detail = variable name; path = field names)
          | 'call' (detail = (bb, callee)) | 'agg' (detail = (bb, idx, adt, variant))
          | 'bin' (detail = (op, bb, idx)) | 'un' | 'discr' | 'cast' | 'local' (unknown; detail = local)
    """

    def __new__(cls, kind, detail, path=()):
        return super().__new__(cls, (kind, detail, tuple(path)))

    kind = property(lambda s: s[0])
    detail = property(lambda s: s[1])
    path = property(lambda s: s[2])

    def access_path(self):
        """`self.sender.tx` style rendering for arg/upvar roots."""
        if self.kind in ("arg", "upvar"):
            return ".".join([self.detail] + [p for p in self.path])
        return None

    def __repr__(self):
        ap = self.access_path()
        if ap:
            return f"<{self.kind} {ap}>"
        return f"<{self.kind} {self.detail} {'.'.join(self.path)}>"


# calls whose result "is" (a view of / derived 1:1 from) their first argument, for provenance purposes
PASSTHRU = {
    "std::clone::Clone::clone", "std::convert::Into::into", "std::convert::From::from",
    "std::future::IntoFuture::into_future", "std::pin::Pin::new_unchecked", "std::pin::Pin::new",
    "std::ops::Deref::deref", "std::ops::DerefMut::deref_mut", "std::borrow::Borrow::borrow",
    "std::borrow::BorrowMut::borrow_mut", "std::convert::AsRef::as_ref", "std::convert::AsMut::as_mut",
    "std::option::Option::as_ref", "std::option::Option::as_mut", "std::option::Option::as_deref",
    "std::iter::IntoIterator::into_iter", "std::ops::Try::branch",
    "std::pin::Pin::as_mut", "std::pin::Pin::get_mut", "std::pin::Pin::get_unchecked_mut",
    "std::pin::Pin::into_inner", "std::pin::Pin::set",
}


# calls whose result is one of / a combination of all their arguments (min, max ...)
MULTI_PASSTHRU = {"std::cmp::Ord::min", "std::cmp::Ord::max", "std::cmp::min", "std::cmp::max"}


def field_name(proj):
    """'.3:tx' -> 'tx' ; '.0' -> '0' ; others -> None"""
    if isinstance(proj, str) and proj.startswith("."):
        return proj.split(":", 1)[1] if ":" in proj else proj[1:]
    return None


def proj_path(projs):
    """Projection list -> tuple of field / variant names (derefs, indexes dropped)."""
    out = []
    for p in projs:
        if p == "*" or p == "opaque":
            continue
        f = field_name(p)
        if f is not None:
            out.append(f)
        elif p.startswith("@"):
            out.append(p)
        elif p.startswith("["):
            out.append("[]")
    return tuple(out)


class Body:
    def __init__(self, facts, crate, j):
        self.facts = facts
        self.crate = crate
        self.j = j
        self.path = j["path"]
        self.dp = j["dp"]
        self.kind = j["kind"]
        self.parent = j.get("parent")
        self.parent_dp = j.get("parent_dp")
        self.file = j["file"]
        self.line = j["line"]
        self.expanded = j.get("x", False)
        self.locals = j["locals"]
        self.blocks = j["blocks"]
        self.arg_count = j["arg_count"]
        self.upvars = [u["name"] for u in j.get("upvars", [])]
        self.n = len(self.blocks)
        self._succ = None
        self._pred = None
        self._dom = None
        self._defs = None
        self._reach_entry = None

    def __repr__(self):
        return f"Body({self.path})"

    # ------------------------------------------------------------------ basic access
    def term(self, bb):
        return self.blocks[bb]["t"]

    def stmts(self, bb):
        return self.blocks[bb]["s"]

    def is_cleanup(self, bb):
        return self.blocks[bb].get("cleanup", False)

    def loc(self, bb, idx=None):
        """file:line of a block's terminator or statement."""
        if idx is None or idx >= len(self.stmts(bb)):
            l = self.term(bb).get("l")
        else:
            l = self.stmts(bb)[idx].get("l")
        return f"{self.file}:{l}"

    def local_ty(self, l):
        return self.locals[l]["ty"]

    def local_name(self, l):
        return self.locals[l].get("name")

    def local_by_name(self, name):
        return [i for i, l in enumerate(self.locals) if l.get("name") == name]

    # ------------------------------------------------------------------ CFG
    @staticmethod
    def term_succ(t, cancel_edges=False):
        k = t["t"]
        if k in ("goto", "drop", "assert", "falseedge", "falseunwind"):
            return [t["tgt"]]
        if k == "call":
            return [t["tgt"]] if t["tgt"] is not None else []
        if k == "switch":
            out = [b for _, b in t["targets"]]
            if t["otherwise"] not in out:
                out.append(t["otherwise"])
            return out
        if k == "yield":
            out = [t["resume"]]
            if cancel_edges and t["drop"] is not None:
                out.append(t["drop"])
            return out
        return []

    @property
    def succ(self):
        if self._succ is None:
            self._succ = [self.term_succ(b["t"]) for b in self.blocks]
        return self._succ

    @property
    def pred(self):
        if self._pred is None:
            p = [[] for _ in range(self.n)]
            for a, ss in enumerate(self.succ):
                for b in ss:
                    p[b].append(a)
            self._pred = p
        return self._pred

    def reach(self, starts, avoid=(), avoid_edges=(), include_start=True):
        """Blocks reachable from `starts` along normal edges without *entering* a block in `avoid`
        and without using an edge in `avoid_edges`.  Start blocks are included (unless avoided)."""
        avoid = set(avoid)
        avoid_edges = set(avoid_edges)
        seen = set()
        dq = deque()
        for s in starts:
            if include_start:
                if s not in avoid and s not in seen:
                    seen.add(s)
                    dq.append(s)
            else:
                for t in self.succ[s]:
                    if t not in avoid and (s, t) not in avoid_edges and t not in seen:
                        seen.add(t)
                        dq.append(t)
        while dq:
            a = dq.popleft()
            for b in self.succ[a]:
                if b in seen or b in avoid or (a, b) in avoid_edges:
                    continue
                seen.add(b)
                dq.append(b)
        return seen

    def find_path(self, starts, goals, avoid=(), avoid_edges=(), from_succ=False):
        """Block path from a start to a goal (avoiding ...), or None.  A path found by plain search is confirmed by
        the search with constant / variant propagation (find_path_cp), which discards paths that contradict a
        value assigned on the way (`let ok = matches!(..); if ok {..}`, a helper returning Some / None)."""
        p = self._find_path_plain(starts, goals, avoid, avoid_edges, from_succ)
        if p is None or os.environ.get("VERIF_NO_CP"):
            return p
        return self.find_path_cp(starts, goals, avoid, avoid_edges, from_succ)

    def _find_path_plain(self, starts, goals, avoid=(), avoid_edges=(), from_succ=False):
        """Shortest block path from a start to a goal (avoiding ...), or None.  With `from_succ`
        the search begins at the successors of the start blocks (the start block itself is the
        first element of the returned path but need not be a goal / may be avoided)."""
        avoid = set(avoid)
        avoid_edges = set(avoid_edges)
        goals = set(goals)
        prev = {}
        first = {}
        dq = deque()
        for s in starts:
            if from_succ:
                for t in self.succ[s]:
                    if t not in avoid and (s, t) not in avoid_edges and t not in prev:
                        prev[t] = None
                        first[t] = s
                        dq.append(t)
            elif s not in avoid and s not in prev:
                prev[s] = None
                dq.append(s)
        hit = next((b for b in dq if b in goals), None)
        while dq and hit is None:
            a = dq.popleft()
            for b in self.succ[a]:
                if b in prev or b in avoid or (a, b) in avoid_edges:
                    continue
                prev[b] = a
                if b in goals:
                    hit = b
                    break
                dq.append(b)
        if hit is None:
            return None
        path = [hit]
        while prev[path[-1]] is not None:
            path.append(prev[path[-1]])
        if path[-1] in first:
            path.append(first[path[-1]])
        return list(reversed(path))

    def find_path_cp(self, starts, goals, avoid=(), avoid_edges=(), from_succ=False):
        """find_path with propagation of constants and enum variants assigned to whole locals (`_x = const`,
        `_x = Enum::Variant(..)`, `_y = copy/move _x`, `_d = discriminant(_x)`): a switch on a local whose value is
        known follows only the matching edge.  Resolves the `matches!(..)` / `let ok = match .. {A => true, _ => false};
        if ok {..}` idiom and values returned by spliced-in helpers, which plain path search over-approximates."""
        avoid, goals, avoid_edges = set(avoid), set(goals), set(avoid_edges)

        def pkey(pl):
            return ("P",) + tuple(str(x) for x in pl)

        def kill(env, pl):
            pp = tuple(str(x) for x in pl)
            for k in [k for k in env if isinstance(k, tuple)]:
                kp = k[1:]
                if kp[:len(pp)] == pp or pp[:len(kp)] == kp:
                    del env[k]

        def step(bb, env):
            """Also tracks *field places* (`(*self).item = None`, `discriminant((*self).data)`, `Option::is_none(&(*self).x)`,
            `Option::take(&mut (*self).x)`): a mutable borrow of a place forgets what is known about it (and about
            everything overlapping it), so only facts established by plain stores survive."""
            env = dict(env)
            for st in self.stmts(bb):
                if st.get("k") != "assign":
                    continue
                p = st["p"]
                rv = st["rv"]
                val = None
                if rv["r"] == "use":
                    o = rv["o"]
                    if o[0] == "k" and isinstance(o[1], dict) and o[1].get("v") is not None and "fn" not in o[1]:
                        try:
                            v = o[1]["v"]
                            val = {"true": 1, "false": 0}.get(str(v), None)
                            if val is None:
                                val = int(v)
                        except (TypeError, ValueError):
                            val = None
                    elif o[0] != "k" and len(o[1]) == 1 and o[1][0] in env:
                        val = env[o[1][0]]
                    elif o[0] != "k" and len(o[1]) > 1:
                        val = env.get(pkey(o[1]))
                        if o[0] == "m":
                            kill(env, o[1])
                elif rv["r"] == "agg" and rv.get("kind") == "adt" and rv.get("variant") is not None:
                    val = ("variant", rv["variant"])
                elif rv["r"] == "discr":
                    dp = rv["p"]
                    if len(dp) >= 2 and dp[1] == "*" and isinstance(env.get(dp[0]), tuple) and env[dp[0]][0] in ("ref", "refmut"):
                        cur = env.get(env[dp[0]][1] + tuple(str(x) for x in dp[2:]))     # discriminant(*r) with r = &place
                    else:
                        cur = env.get(dp[0]) if len(dp) == 1 else env.get(pkey(dp))
                    if isinstance(cur, tuple) and cur[0] == "variant":
                        for idx, name in rv.get("variants", []):
                            if name == cur[1]:
                                val = int(idx)
                elif rv["r"] == "ref" and len(rv["p"]) > 1:
                    if rv.get("m") in ("mut", "Mut", True) or "mut" in str(rv.get("m", "")).lower():
                        kill(env, rv["p"])
                        val = ("refmut", pkey(rv["p"]))
                    else:
                        val = ("ref", pkey(rv["p"]))
                if len(p) != 1:
                    if p and p[0] in env:
                        env.pop(p[0], None)
                    kill(env, p)
                    if val is not None and not (isinstance(val, tuple) and val[0] in ("ref", "refmut")):
                        env[pkey(p)] = val
                    continue
                if val is None:
                    env.pop(p[0], None)
                else:
                    env[p[0]] = val
            t = self.term(bb)
            if t["t"] == "call" and t.get("d") and len(t["d"]) >= 1:
                env.pop(t["d"][0], None)
                if len(t["d"]) == 1:
                    c = callee(t) or ""
                    # the `?` operator: Try::branch maps Some/Ok -> Continue, None/Err -> Break; from_residual
                    # always builds the failure variant of its result type
                    if c.endswith("Try::branch") and t["a"] and t["a"][0][0] != "k" and len(t["a"][0][1]) == 1:
                        cur = env.get(t["a"][0][1][0])
                        if isinstance(cur, tuple) and cur[0] == "variant":
                            if cur[1] in ("Some", "Ok"):
                                env[t["d"][0]] = ("variant", "Continue")
                            elif cur[1] in ("None", "Err"):
                                env[t["d"][0]] = ("variant", "Break")
                    elif c in ("std::option::Option::is_none", "std::option::Option::is_some") and t["a"] and \
                            t["a"][0][0] != "k" and len(t["a"][0][1]) == 1:
                        r = env.get(t["a"][0][1][0])
                        if isinstance(r, tuple) and r[0] in ("ref", "refmut"):
                            cur = env.get(r[1])
                            if isinstance(cur, tuple) and cur[0] == "variant" and cur[1] in ("None", "Some"):
                                env[t["d"][0]] = int((cur[1] == "None") == c.endswith("is_none"))
                    elif c == "std::option::Option::take" and t["a"] and t["a"][0][0] != "k" and len(t["a"][0][1]) == 1:
                        r = env.get(t["a"][0][1][0])
                        if isinstance(r, tuple) and r[0] == "refmut":
                            env[r[1]] = ("variant", "None")
                    elif c.endswith("FromResidual::from_residual"):
                        ty = (t.get("fn") or {}).get("self_ty", "") or t.get("dty", "")
                        if ty.startswith("std::option::Option"):
                            env[t["d"][0]] = ("variant", "None")
                        elif ty.startswith("std::result::Result"):
                            env[t["d"][0]] = ("variant", "Err")
            if t["t"] == "switch" and t["o"][0] != "k" and len(t["o"][1]) == 1 and t["o"][1][0] in env and \
                    not isinstance(env[t["o"][1][0]], tuple):
                v = env[t["o"][1][0]]
                nxt = [tb for val, tb in t["targets"] if str(val) == str(v)] or [t["otherwise"]]
            else:
                nxt = list(self.succ[bb])
            return nxt, frozenset(env.items())

        seen = {}
        dq = deque()
        first = {}
        for s0 in starts:
            if from_succ:
                nxt, env2 = step(s0, frozenset())
                for n in nxt:
                    if n in avoid or (s0, n) in avoid_edges:
                        continue
                    st = (n, env2)
                    if st not in seen:
                        seen[st] = None
                        first[st] = s0
                        dq.append(st)
                continue
            if s0 in avoid:
                continue
            st = (s0, frozenset())
            if st not in seen:
                seen[st] = None
                dq.append(st)
        while dq:
            cur = dq.popleft()
            bb, env = cur
            if bb in goals:
                path = [cur]
                while seen[path[-1]] is not None:
                    path.append(seen[path[-1]])
                out = [x[0] for x in reversed(path)]
                if path[-1] in first:
                    out = [first[path[-1]]] + out
                return out
            nxt, env2 = step(bb, env)
            for n in nxt:
                if n in avoid or (bb, n) in avoid_edges:
                    continue
                st = (n, env2)
                if st not in seen:
                    if len(seen) >= 40000:
                        # state budget exhausted: fall back to the plain (over-approximating) answer
                        return self._find_path_plain(starts, goals, avoid, avoid_edges, from_succ)
                    seen[st] = cur
                    dq.append(st)
        return None

    @property
    def reachable(self):
        if self._reach_entry is None:
            self._reach_entry = self.reach([0])
        return self._reach_entry

    @property
    def dom(self):
        """dom[b] = set of blocks dominating b (normal CFG, reachable blocks only)."""
        if self._dom is None:
            reach = self.reachable
            order = [b for b in self._rpo() if b in reach]
            dom = {b: None for b in order}
            dom[0] = {0}
            changed = True
            while changed:
                changed = False
                for b in order:
                    if b == 0:
                        continue
                    ps = [dom[p] for p in self.pred[b] if p in dom and dom[p] is not None]
                    if not ps:
                        continue
                    new = set.intersection(*ps) | {b}
                    if new != dom[b]:
                        dom[b] = new
                        changed = True
            self._dom = {b: (d or {b}) for b, d in dom.items()}
        return self._dom

    def _rpo(self):
        seen = set()
        out = []
        stack = [(0, iter(self.succ[0]))]
        seen.add(0)
        while stack:
            b, it = stack[-1]
            adv = False
            for s in it:
                if s not in seen:
                    seen.add(s)
                    stack.append((s, iter(self.succ[s])))
                    adv = True
                    break
            if not adv:
                out.append(b)
                stack.pop()
        return list(reversed(out))

    def dominates(self, a, b):
        return b in self.dom and a in self.dom[b]

    def edge_dominates(self, a, t, b):
        """Every path entry -> b uses the edge a->t."""
        if b not in self.reachable:
            return True
        return b not in self.reach([0], avoid_edges=[(a, t)])

    def back_edges(self):
        """(a, b) with b dominating a: loop back edges."""
        out = []
        for a in self.reachable:
            for b in self.succ[a]:
                if self.dominates(b, a):
                    out.append((a, b))
        return out

    def loop_blocks(self, head):
        """Natural loop of `head`: union over back edges a->head of blocks reaching a without head."""
        body = {head}
        for a, b in self.back_edges():
            if b != head:
                continue
            stack = [a]
            while stack:
                x = stack.pop()
                if x in body:
                    continue
                body.add(x)
                stack.extend(self.pred[x])
        return body

    # ------------------------------------------------------------------ terminators of interest
    def calls(self, name=None, pred=None):
        """Yield (bb, term) of Call terminators; `name` matches the generic-stripped callee (exact
        string, or compiled regex)."""
        for bb, b in enumerate(self.blocks):
            t = b["t"]
            if t["t"] != "call" or b.get("cleanup"):
                continue
            c = callee(t)
            if name is not None:
                if isinstance(name, str):
                    if c != name:
                        continue
                elif isinstance(name, (set, frozenset, list, tuple)):
                    if c not in name:
                        continue
                elif not name.search(c or ""):
                    continue
            if pred is not None and not pred(bb, t):
                continue
            yield bb, t

    def yields(self):
        return [bb for bb, b in enumerate(self.blocks) if b["t"]["t"] == "yield" and bb in self.reachable]

    def returns(self):
        return [bb for bb, b in enumerate(self.blocks) if b["t"]["t"] == "return" and bb in self.reachable]

    def result_stores(self, variant=None):
        """Blocks assigning the return place `_0` (optionally: with a Result/Option/Poll aggregate of
        the given variant, e.g. 'Ok' / 'Err'); calls writing `_0` are reported with variant None."""
        out = []
        for bb in sorted(self.reachable):
            for i, s in enumerate(self.stmts(bb)):
                if s["k"] == "assign" and s["p"] == [0]:
                    rv = s["rv"]
                    v = rv.get("variant") if rv["r"] == "agg" else None
                    if variant is None or v == variant:
                        out.append((bb, i, v))
            t = self.term(bb)
            if t["t"] == "call" and t["d"] == [0] and variant is None:
                out.append((bb, None, None))
        return out

    def aggregates(self, adt=None, variant=None):
        """Yield (bb, idx, rvalue) for aggregate constructions of an ADT (and variant)."""
        for bb, b in enumerate(self.blocks):
            if b.get("cleanup"):
                continue
            for i, s in enumerate(b["s"]):
                if s["k"] != "assign":
                    continue
                rv = s["rv"]
                if rv["r"] != "agg" or rv.get("kind") != "adt":
                    continue
                if adt is not None and rv["adt"] != adt:
                    continue
                if variant is not None and rv["variant"] != variant:
                    continue
                yield bb, i, rv

    def assigns(self, pred=None):
        for bb, b in enumerate(self.blocks):
            if b.get("cleanup"):
                continue
            for i, s in enumerate(b["s"]):
                if s["k"] == "assign" and (pred is None or pred(s)):
                    yield bb, i, s

    def moves_of(self, local):
        """Blocks in which the whole local is moved out (operand `move _local`) or dropped."""
        out = set()
        want = ["m", [local]]
        for bb, blk in enumerate(self.blocks):
            if blk.get("cleanup") or bb not in self.reachable:
                continue
            for s in blk["s"]:
                if s["k"] != "assign":
                    continue
                rv = s["rv"]
                ops = [rv.get("o"), rv.get("a"), rv.get("b")] + list(rv.get("ops", []))
                if any(o == want for o in ops if o):
                    out.add(bb)
            t = blk["t"]
            if t["t"] == "call" and any(a == want for a in t["a"]):
                out.add(bb)
            if t["t"] == "drop" and t["p"] == [local]:
                out.add(bb)
        return out

    def field_stores(self, field):
        """Assignments whose destination place ends in field `field` (any base)."""
        for bb, i, s in self.assigns():
            p = s["p"]
            if len(p) > 1 and field_name(p[-1]) == field:
                yield bb, i, s

    # ------------------------------------------------------------------ def-use
    @property
    def defs(self):
        """local -> list of ('assign', bb, idx, stmt) / ('call', bb, term) / ('yield', bb, term)
        for definitions of the *whole* local; partial writes are under key (local, 'partial')."""
        if self._defs is None:
            d = defaultdict(list)
            for bb, b in enumerate(self.blocks):
                if b.get("cleanup"):
                    continue
                for i, s in enumerate(b["s"]):
                    if s["k"] == "assign":
                        p = s["p"]
                        if len(p) == 1:
                            d[p[0]].append(("assign", bb, i, s))
                        else:
                            d[(p[0], "partial")].append(("assign", bb, i, s))
                t = b["t"]
                if t["t"] == "call":
                    p = t["d"]
                    if len(p) == 1:
                        d[p[0]].append(("call", bb, t))
                    else:
                        d[(p[0], "partial")].append(("call", bb, t))
                elif t["t"] == "yield":
                    p = t["ra"]
                    if len(p) == 1:
                        d[p[0]].append(("yield", bb, t))
            self._defs = d
        return self._defs

    def origins(self, operand, passthru=PASSTHRU, depth=0, _seen=None, through_calls=()):
        """P6: backward provenance of an operand (['c'|'m', place] / ['k', const]) or a place list.
        Flow-insensitive over all definitions of each local.  Returns a set of Origin."""
        if _seen is None:
            _seen = set()
        if isinstance(operand, list) and operand and operand[0] in ("c", "m", "k"):
            if operand[0] == "k":
                return {self._const_origin(operand[1])}
            place = operand[1]
        else:
            place = operand
        return self._place_origins(place[0], list(place[1:]), passthru, _seen, through_calls)

    @staticmethod
    def _const_origin(k):
        if isinstance(k, dict):
            if "fn" in k:
                return Origin("fnconst", strip_generics(k["fn"]["def"]))
            if "def" in k:
                return Origin("constdef", k["def"], (k.get("v", ""),))
            if "v" in k:
                return Origin("const", k["v"])
            if "str" in k:
                return Origin("const", k["str"])
            return Origin("const", k.get("ty", "?"))
        return Origin("const", str(k))

    def _root(self, local):
        """arg / upvar root of a local, if it is one."""
        if self.kind in ("coroutine", "closure"):
            if local == 1:
                return ("closure_env", None)
            if 1 < local <= self.arg_count:
                return ("arg", self.local_name(local) or f"_{local}")
            return None
        if 1 <= local <= self.arg_count:
            return ("arg", self.local_name(local) or f"_{local}")
        return None

    def _place_origins(self, local, projs, passthru, seen, through_calls):
        key = (local, tuple(projs))
        if key in seen:
            return set()
        seen.add(key)
        root = self._root(local)
        if root is not None:
            if root[0] == "closure_env":
                # (_1).N or (*_1).N  -> upvar N
                ps = [p for p in projs]
                while ps and ps[0] == "*":
                    ps.pop(0)
                if ps and ps[0].startswith("."):
                    idx = int(ps[0][1:].split(":")[0])
                    name = self.upvars[idx] if idx < len(self.upvars) else f"upvar{idx}"
                    return {Origin("upvar", name, proj_path(ps[1:]))}
                return {Origin("arg", "closure_env", proj_path(ps))}
            return {Origin("arg", root[1], proj_path(projs))}
        out = set()
        defs = self.defs.get(local, [])
        if not defs:
            return {Origin("local", local, proj_path(projs))}
        for d in defs:
            if d[0] == "assign":
                _, bb, i, s = d
                rv = s["rv"]
                r = rv["r"]
                if r == "use":
                    out |= self._operand_origins(rv["o"], projs, passthru, seen, through_calls)
                elif r == "ref" or r == "rawptr":
                    ps = list(projs)
                    if ps and ps[0] == "*":
                        ps = ps[1:]
                    p2 = rv["p"]
                    out |= self._place_origins(p2[0], list(p2[1:]) + ps, passthru, seen, through_calls)
                elif r == "cast":
                    out |= self._operand_origins(rv["o"], projs, passthru, seen, through_calls)
                elif r == "agg":
                    ps = [p for p in projs if p != "*" and not p.startswith("@")]
                    if ps and ps[0].startswith("."):
                        idx = int(ps[0][1:].split(":")[0])
                        if idx < len(rv["ops"]):
                            out |= self._operand_origins(rv["ops"][idx], ps[1:], passthru, seen, through_calls)
                            continue
                    out.add(Origin("agg", (bb, i, rv.get("adt", rv.get("kind")), rv.get("variant")), proj_path(projs)))
                elif r == "bin":
                    out.add(Origin("bin", (rv["op"], bb, i), proj_path(projs)))
                elif r == "un":
                    out.add(Origin("un", (rv["op"], bb, i), proj_path(projs)))
                elif r == "discr":
                    out.add(Origin("discr", (bb, i), ()))
                else:
                    out.add(Origin("local", local, proj_path(projs)))
            elif d[0] == "call":
                _, bb, t = d
                c = callee(t)
                if c in MULTI_PASSTHRU and t["a"]:
                    for a in t["a"]:
                        out |= self._operand_origins(a, [], passthru, seen, through_calls)
                elif (c in passthru or c in through_calls) and t["a"]:
                    ps = list(projs)
                    out |= self._operand_origins(t["a"][0], ps, passthru, seen, through_calls)
                else:
                    out.add(Origin("call", (bb, c), proj_path(projs)))
            elif d[0] == "yield":
                out.add(Origin("local", local, ("resume",)))
        return out

    def _operand_origins(self, op, projs, passthru, seen, through_calls):
        if op[0] == "k":
            return {self._const_origin(op[1])}
        p = op[1]
        return self._place_origins(p[0], list(p[1:]) + list(projs), passthru, seen, through_calls)

    # ------------------------------------------------------------------ expression trees
    def expr(self, operand, depth=24, _seen=None):
        """Value expression of an operand / place as a nested tuple (see module doc):
        ('const', v, ty) | ('constdef', def, v) | ('fn', def) | ('path', 'self.tx') |
        ('var', name, path, (def exprs...)) | ('call', callee, (args...), bb) | ('bin', op, a, b) |
        ('un', op, a) | ('cast', ty, e) | ('agg', adt, variant, ((field, e)...)) | ('discr', e) |
        ('proj', e, path) | ('ref', e) is never produced (references are looked through) |
        ('local', n) | ('deep',)"""
        if _seen is None:
            _seen = frozenset()
        if isinstance(operand, list) and operand and operand[0] in ("c", "m", "k"):
            if operand[0] == "k":
                return self._const_expr(operand[1])
            place = operand[1]
        else:
            place = operand
        return self._place_expr(place[0], list(place[1:]), depth, _seen)

    @staticmethod
    def _const_expr(k):
        if isinstance(k, dict):
            if "fn" in k:
                return ("fn", strip_generics(k["fn"]["def"]))
            if "def" in k:
                return ("constdef", k["def"], k.get("v"))
            if "v" in k:
                return ("const", k["v"], k.get("ty"))
            if "str" in k:
                return ("const", k["str"], "&str")
            return ("const", None, k.get("ty"))
        return ("const", str(k), None)

    def _place_expr(self, local, projs, depth, seen):
        if depth <= 0:
            return ("deep",)
        for k, p in enumerate(projs):
            if isinstance(p, str) and p.startswith("[_"):
                # built-in slice / array indexing: keep the index expression
                base = self._place_expr(local, list(projs[:k]), depth - 1, seen)
                idx = self._place_expr(int(p[2:-1]), [], depth - 1, seen)
                pp = proj_path(projs[k + 1:])
                e = ("index", base, idx)
                return ("proj", e, pp) if pp else e
        root = self._root(local)
        if root is not None:
            if root[0] == "closure_env":
                ps = list(projs)
                while ps and ps[0] == "*":
                    ps.pop(0)
                if ps and ps[0].startswith("."):
                    idx = int(ps[0][1:].split(":")[0])
                    name = self.upvars[idx] if idx < len(self.upvars) else f"upvar{idx}"
                    return ("path", ".".join((name,) + proj_path(ps[1:])))
                return ("path", "closure_env")
            return ("path", ".".join((root[1],) + proj_path(projs)))
        defs = self.defs.get(local, [])
        name = self.local_name(local)
        if not defs:
            return ("local", local)
        if len(defs) > 1 or (local, tuple(projs)) in seen:
            if (local, tuple(projs)) in seen:
                return ("var", name or f"_{local}", proj_path(projs), ())
            seen = seen | {(local, tuple(projs))}
            sub = tuple(self._def_expr(d, [], depth - 2, seen) for d in defs[:8])
            return ("var", name or f"_{local}", proj_path(projs), sub)
        seen = seen | {(local, tuple(projs))}
        e = self._def_expr(defs[0], projs, depth, seen)
        partial = self.defs.get((local, "partial"), [])
        if partial and not projs and not self.local_ty(local).startswith(("&", "*")):
            # the value was also written through field projections / raw writes (e.g. `vec![x]`
            # initialising a fresh Box): keep what was written
            ws = []
            for d in partial[:6]:
                if d[0] == "assign":
                    rv = d[3]["rv"]
                    if rv["r"] == "use":
                        ws.append(self.expr(rv["o"], depth - 2, seen))
                    elif rv["r"] == "agg":
                        ws.extend(self.expr(o, depth - 2, seen) for o in rv["ops"])
            if ws:
                return ("with", e, tuple(ws))
        return e

    def _def_expr(self, d, projs, depth, seen):
        if depth <= 0:
            return ("deep",)

        def wrap(e, ps):
            pp = proj_path(ps)
            return ("proj", e, pp) if pp else e

        if d[0] == "assign":
            _, bb, i, s = d
            rv = s["rv"]
            r = rv["r"]
            if r == "use":
                o = rv["o"]
                if o[0] == "k":
                    return self._const_expr(o[1])
                return self._place_expr(o[1][0], list(o[1][1:]) + list(projs), depth - 1, seen)
            if r in ("ref", "rawptr"):
                ps = list(projs)
                if ps and ps[0] == "*":
                    ps = ps[1:]
                p2 = rv["p"]
                return self._place_expr(p2[0], list(p2[1:]) + ps, depth - 1, seen)
            if r == "cast":
                return wrap(("cast", rv["ty"], self.expr(rv["o"], depth - 1, seen)), projs)
            if r == "bin":
                op = rv["op"]
                ps = list(projs)
                if op.endswith("WithOverflow"):
                    op = op[: -len("WithOverflow")]
                    if ps and ps[0].startswith(".0"):
                        ps = ps[1:]
                    elif ps and ps[0].startswith(".1"):
                        return ("overflow_flag",)
                return wrap(("bin", op, self.expr(rv["a"], depth - 1, seen), self.expr(rv["b"], depth - 1, seen)), ps)
            if r == "un":
                return wrap(("un", rv["op"], self.expr(rv["a"], depth - 1, seen)), projs)
            if r == "discr":
                p2 = rv["p"]
                return ("discr", self._place_expr(p2[0], list(p2[1:]), depth - 1, seen))
            if r == "agg":
                ps = [p for p in projs if p != "*" and not p.startswith("@")]
                if ps and ps[0].startswith("."):
                    idx = int(ps[0][1:].split(":")[0])
                    if idx < len(rv["ops"]):
                        o = rv["ops"][idx]
                        if o[0] == "k":
                            return self._const_expr(o[1])
                        return self._place_expr(o[1][0], list(o[1][1:]) + ps[1:], depth - 1, seen)
                names = rv.get("fields") or [str(i) for i in range(len(rv["ops"]))]
                node = ("agg", rv.get("adt", rv.get("kind")), rv.get("variant"),
                        tuple((n, self.expr(o, depth - 2, seen)) for n, o in zip(names, rv["ops"])))
                if rv.get("dp"):
                    node = node + (rv["dp"],)       # closure / coroutine body
                return wrap(node, projs)
            return ("other", r)
        if d[0] == "call":
            _, bb, t = d
            c = callee(t)
            ps = list(projs)
            if c in ("futures::Future::poll", "std::future::Future::poll") and t["a"]:
                fut = self.expr(t["a"][0], depth - 1, seen)
                while fut[0] == "call" and fut[1] in ("std::pin::Pin::new_unchecked", "std::pin::Pin::new",
                                                       "std::future::IntoFuture::into_future",
                                                       "std::pin::Pin::as_mut") and fut[2]:
                    fut = fut[2][0]
                if ps and ps[0] == "@Ready":
                    ps = ps[1:]
                    if ps and ps[0].startswith(".0"):
                        ps = ps[1:]
                return wrap(("await", fut, bb), ps)
            if c == "std::ops::Try::branch" and t["a"]:
                inner = self.expr(t["a"][0], depth - 1, seen)
                kind = "try"
                if ps and ps[0] in ("@Continue", "@Break"):
                    kind = "try" if ps[0] == "@Continue" else "try_err"
                    ps = ps[1:]
                    if ps and ps[0].startswith(".0"):
                        ps = ps[1:]
                return wrap((kind, inner, t.get("fn", {}).get("self_ty", "")), ps)
            e = ("call", c, tuple(self.expr(a, depth - 1, seen) for a in t["a"]), bb,
                 tuple(t.get("fn", {}).get("args", ())))
            return wrap(e, projs)
        if d[0] == "yield":
            return ("resume",)
        return ("other", d[0])

    # ------------------------------------------------------------------ awaits
    def awaits(self):
        """For an async coroutine: one record per `.await` (= per Yield terminator).

        yield_bb, poll_bb, ready_bb (first block of the Ready arm), fut_ty (the awaited future's
        type), fut_fn (the resolved coroutine / poll impl, if any), src (Origin set of the awaited
        future: usually the call that created it)."""
        out = []
        for y in self.yields():
            # walk back along unique predecessors to the Future::poll call
            b = y
            poll = None
            guard = 0
            while guard < 50:
                guard += 1
                ps = [p for p in self.pred[b] if p in self.reachable]
                if len(ps) != 1:
                    break
                b = ps[0]
                t = self.term(b)
                if t["t"] == "call" and callee(t) in ("futures::Future::poll", "std::future::Future::poll"):
                    poll = b
                    break
            rec = {"yield_bb": y, "poll_bb": poll, "line": self.term(y).get("l"), "expanded_only": False}
            if poll is not None:
                t = self.term(poll)
                rec["fut_ty"] = t["fn"].get("self_ty", "")
                rec["fut_fn"] = strip_generics(t["fn"].get("resolved", "")) or None
                rec["src"] = self.origins(t["a"][0])
                # ready arm: the switch after the poll; target for discriminant 0 (Poll::Ready)
                sw = t["tgt"]
                st = self.term(sw)
                ready = None
                if st["t"] == "switch":
                    for v, tb in st["targets"]:
                        if v == "0":
                            ready = tb
                rec["ready_bb"] = ready
            out.append(rec)
        return out


def callee(t):
    """Generic-stripped def path of a call terminator's callee, or None for indirect calls."""
    fn = t.get("fn")
    if fn is None:
        return None
    c = fn.get("_c")
    if c is None:
        c = strip_generics(fn["def"])
        fn["_c"] = c
    return c


def callee_resolved(t):
    fn = t.get("fn")
    if fn is None:
        return None
    r = fn.get("resolved")
    return strip_generics(r) if r else callee(t)


class BodyMap(dict):
    """dict of bodies whose enumeration skips helpers that were spliced into all of their callers."""

    def __init__(self, d, hidden_keys=None, hidden_ids=None):
        super().__init__(d)
        self._hk = hidden_keys or set()
        self._hi = hidden_ids or set()

    def _vis(self, k, v):
        return k not in self._hk and id(v) not in self._hi

    def items(self):
        return [(k, v) for k, v in super().items() if self._vis(k, v)]

    def values(self):
        return [v for k, v in super().items() if self._vis(k, v)]

    def keys(self):
        return [k for k, v in super().items() if self._vis(k, v)]

    def __iter__(self):
        return iter(self.keys())


class Facts:
    def __init__(self, files):
        """files: {stem: path} as returned by extract.extract()"""
        self.crates = {}
        self.bodies = {}
        self.by_dp = {}
        self.children = defaultdict(list)
        self.adts = {}
        self.impls = []
        self.fns = {}
        self.consts = {}
        self.unsafe_blocks = []
        self.crate_attrs = {}
        self._inliner = None
        for stem, path in sorted(files.items()):
            j = json.load(open(path))
            crate = j["crate"]
            self.crates[stem] = j
            for bj in j["bodies"]:
                b = Body(self, crate, bj)
                key = b.path if crate == "remoc" else f"{crate}::{b.path}"
                # several closures can share a printed path only if generics differ; keep first, list all
                self.bodies.setdefault(key, b)
                self.bodies.setdefault(strip_generics(key), b)
                self.by_dp[(crate, b.dp)] = b
            for bj in j["bodies"]:
                if "parent_dp" in bj:
                    self.children[(crate, bj["parent_dp"])].append(self.by_dp[(crate, bj["dp"])])
            for a in j["adts"]:
                key = a["path"] if crate == "remoc" else f"{crate}::{a['path']}"
                self.adts[key] = a
            for i in j["impls"]:
                i["crate"] = crate
                self.impls.append(i)
            for f in j["fns"]:
                key = f["path"] if crate == "remoc" else f"{crate}::{f['path']}"
                self.fns.setdefault(key, f)
                self.fns.setdefault(strip_generics(key), f)
            for c in j["consts"]:
                key = c["path"] if crate == "remoc" else f"{crate}::{c['path']}"
                self.consts[key] = c
            for u in j["unsafe_blocks"]:
                u["crate"] = crate
                self.unsafe_blocks.append(u)
            self.crate_attrs[crate] = j["crate_attrs"]
        self.stats = {
            "crates": sorted(self.crates),
            "bodies": len(self.by_dp),
            "blocks": sum(b.n for b in self.by_dp.values()),
            "call_sites": sum(1 for b in self.by_dp.values() for blk in b.blocks if blk["t"]["t"] == "call"),
            "yield_points": sum(1 for b in self.by_dp.values() for blk in b.blocks if blk["t"]["t"] == "yield"),
            "adts": len(self.adts),
            "impls": len(self.impls),
        }
        if not os.environ.get("VERIF_NO_INLINE"):
            self._install_views()

    # ------------------------------------------------------------------ lookup (fail closed)
    def body(self, path):
        b = self.bodies.get(path)
        if b is None:
            raise AnchorMissing(f"function body `{path}` not found")
        return b

    def raw(self, b):
        """The body as extracted (before helper splicing)."""
        return getattr(b, "raw", b)

    def family(self, path):
        """P1: the body plus all nested closures / coroutines (of spliced-in helpers too)."""
        root = self.body(path)
        out = [root]
        i = 0
        while i < len(out):
            for k in self.children.get((out[i].crate, out[i].dp), []):
                if k not in out:
                    out.append(k)
            i += 1
        return out

    def family_raw(self, path):
        return [self.raw(b) for b in self.family(path)]

    def kids(self, b):
        return list(self.children.get((b.crate, b.dp), []))

    def _install_views(self):
        """Replace every remoc body by its view (helpers unknown to the rules spliced in, see inline.py) and hide
        helpers that were spliced into all of their callers from enumeration (their code is analysed in context)."""
        import inline
        inl = inline.Inliner(self)
        raw = dict(self.by_dp)
        views = {}
        for k, b in raw.items():
            views[k] = inl.view(b) if b.crate == "remoc" else b
        # helpers spliced everywhere they are called directly
        callers = defaultdict(set)
        for k, b in raw.items():
            if b.crate != "remoc":
                continue
            for bb, t in b.calls():
                fn = t.get("fn") or {}
                if fn.get("local"):
                    dp = fn.get("resolved_dp") or fn.get("dp")
                    if ("remoc", dp) in raw:
                        callers[("remoc", dp)].add(k)
        hidden = set()
        for h in inl.spliced:
            ok = bool(callers.get(h))
            for c in callers.get(h, ()):
                v = views[c]
                for bb, t in v.calls():
                    fn = t.get("fn") or {}
                    if fn.get("local") and (fn.get("resolved_dp") or fn.get("dp")) == h[1]:
                        ok = False
            hb = raw[h]
            info = self.fns.get(hb.path) or self.fns.get(strip_generics(hb.path)) or {}
            if info.get("vis") == "pub":
                ok = False      # nominally public: an entry point of its own, stays visible to enumerating rules
            if ok and hb.kind in ("fn", "assoc_fn"):
                hidden.add(h)
                for kid in self.children.get(h, []):
                    if kid.kind == "coroutine" and (h in inl.spliced_async):
                        hidden.add((kid.crate, kid.dp))
        self.by_dp_raw = raw
        self.hidden = hidden
        self.by_dp = BodyMap(views, hidden)
        hidden_objs = {id(views[h]) for h in hidden}
        self.bodies = BodyMap({p: views[(b.crate, b.dp)] for p, b in self.bodies.items()}, None, hidden_objs)
        ch = defaultdict(list)
        for k, lst in self.children.items():
            ch[k] = [views[(x.crate, x.dp)] for x in lst]
        for k, v in views.items():
            for hp in getattr(v, "inlined_dps", ()):
                for x in self.children.get(("remoc", hp), []):
                    vx = views[(x.crate, x.dp)]
                    if vx not in ch[k] and (x.crate, x.dp) not in hidden:
                        ch[k].append(vx)
        self.children = ch
        self._inliner = inl

    def main_body(self, path):
        """For an `async fn`: the coroutine that holds the user code, looking through
        `#[tracing::instrument]` (which wraps the body in one more `async move` block passed to
        `Instrument::instrument`); for a plain fn: the fn body itself."""
        fam = self.family(path)
        root = fam[0]
        kids = [b for b in self.children.get((root.crate, root.dp), []) if b.kind == "coroutine"]
        finfo = self.fns.get(root.path) or self.fns.get(strip_generics(root.path)) or {}
        is_async = finfo.get("async", False) or (root.n <= 8 and bool(kids))
        if not is_async or not kids:
            return root
        cur = kids[0]
        for _ in range(4):
            nxt = None
            for bb, t in cur.calls():
                if (callee(t) or "").endswith("Instrument::instrument") and t["a"]:
                    for o in cur.origins(t["a"][0]):
                        if o.kind == "agg" and o.detail[2] == "coroutine":
                            dp = cur.stmts(o.detail[0])[o.detail[1]]["rv"].get("dp")
                            nxt = self.by_dp.get((cur.crate, dp))
            if nxt is None:
                # `#[instrument(ret/err)]` adds one more layer: `let r = async move { body }.await; log(r); r`
                kids2 = [k for k in self.children.get((cur.crate, cur.dp), []) if k.kind == "coroutine"]
                aw = cur.awaits()
                if len(kids2) == 1 and aw and all(strip_generics(kids2[0].path) in strip_generics(a.get("fut_fn") or "")
                                                  for a in aw):
                    nxt = kids2[0]
                    cur = nxt
                    continue
                break
            # only a pure wrapper is looked through: it awaits nothing but the instrumented block
            pure = True
            for a in cur.awaits():
                ff = (a.get("fut_fn") or "") + " " + a.get("fut_ty", "")
                if "Instrumented" not in ff and strip_generics(nxt.path) not in strip_generics(ff) and nxt.path not in ff:
                    pure = False
            if not pure:
                break
            cur = nxt
        return cur

    def bodies_matching(self, regex):
        r = re.compile(regex)
        return [b for k, b in sorted(self.bodies.items()) if r.search(k)]

    def adt(self, path):
        a = self.adts.get(path)
        if a is None:
            raise AnchorMissing(f"type `{path}` not found")
        return a

    def adt_fields(self, path, variant=None):
        a = self.adt(path)
        for v in a["variants"]:
            if variant is None or v["name"] == variant:
                return {f["name"]: f for f in v["fields"]}
        raise AnchorMissing(f"variant `{path}::{variant}` not found")

    def impls_of(self, adt_path, trait=None):
        return [i for i in self.impls if i.get("self_adt") == adt_path and (trait is None or i.get("trait") == trait)]

    def has_impl(self, adt_path, trait):
        return any(not i.get("negative") for i in self.impls_of(adt_path, trait))

    def fn(self, path):
        f = self.fns.get(path)
        if f is None:
            raise AnchorMissing(f"fn `{path}` not found")
        return f

    def const(self, path):
        c = self.consts.get(path)
        if c is None:
            raise AnchorMissing(f"const `{path}` not found")
        return c

    def parent_body(self, b):
        return self.by_dp.get((b.crate, b.parent_dp)) if b.parent_dp else None

    def upvar_origins(self, b, name):
        """Origins, in the parent body, of the value captured as upvar `name` of closure `b`."""
        p = self.parent_body(b)
        if p is None or name not in b.upvars:
            return set()
        idx = b.upvars.index(name)
        out = set()
        for bb, blk in enumerate(p.blocks):
            for i, s in enumerate(blk["s"]):
                if s["k"] == "assign" and s["rv"]["r"] == "agg" and s["rv"].get("dp") == b.dp:
                    out |= p.origins(s["rv"]["ops"][idx])
        return out


def walk(e):
    """Pre-order iteration over an expression tree."""
    yield e
    if not isinstance(e, tuple) or not e:
        return
    k = e[0]
    if k == "call":
        for a in e[2]:
            yield from walk(a)
    elif k == "bin":
        yield from walk(e[2])
        yield from walk(e[3])
    elif k in ("un", "cast"):
        yield from walk(e[2])
    elif k in ("discr", "await", "try", "try_err"):
        yield from walk(e[1])
    elif k == "proj":
        yield from walk(e[1])
    elif k == "index":
        yield from walk(e[1])
        yield from walk(e[2])
    elif k == "agg":
        for _, x in e[3]:
            yield from walk(x)
    elif k == "var":
        for x in e[3]:
            yield from walk(x)
    elif k == "with":
        yield from walk(e[1])
        for x in e[2]:
            yield from walk(x)


def calls_in(e, name=None):
    return [x for x in walk(e) if isinstance(x, tuple) and x and x[0] == "call" and (name is None or x[1] == name)]


def paths_in(e):
    return [x[1] for x in walk(e) if isinstance(x, tuple) and x and x[0] == "path"]


def vars_in(e):
    return [x[1] for x in walk(e) if isinstance(x, tuple) and x and x[0] == "var"]


def consts_in(e):
    return [x for x in walk(e) if isinstance(x, tuple) and x and x[0] in ("const", "constdef")]


def strip_casts(e):
    while isinstance(e, tuple) and e and e[0] == "cast":
        e = e[2]
    return e


def show(e, depth=0):
    """Compact rendering of an expression tree for reports."""
    if not isinstance(e, tuple) or not e:
        return str(e)
    k = e[0]
    if depth > 6:
        return "…"
    if k == "const":
        return f"{e[1]}"
    if k == "constdef":
        return f"{e[1]}(={e[2]})"
    if k == "path":
        return e[1]
    if k == "var":
        return "$" + e[1] + ("." + ".".join(e[2]) if e[2] else "")
    if k == "call":
        g = f"::<{','.join(e[4])}>" if len(e) > 4 and e[4] and e[1].endswith("size_of") else ""
        return f"{e[1].split('::')[-2] if '::' in e[1] else ''}::{e[1].split('::')[-1]}{g}(" + ", ".join(show(a, depth + 1) for a in e[2]) + ")"
    if k == "bin":
        return f"({show(e[2], depth + 1)} {e[1]} {show(e[3], depth + 1)})"
    if k == "un":
        return f"{e[1]}({show(e[2], depth + 1)})"
    if k == "cast":
        return f"({show(e[2], depth + 1)} as {e[1]})"
    if k == "discr":
        return f"discr({show(e[1], depth + 1)})"
    if k == "await":
        return f"{show(e[1], depth + 1)}.await"
    if k in ("try", "try_err"):
        return f"{show(e[1], depth + 1)}?"
    if k == "proj":
        return f"{show(e[1], depth + 1)}.{'.'.join(e[2])}"
    if k == "index":
        return f"{show(e[1], depth + 1)}[{show(e[2], depth + 1)}]"
    if k == "agg":
        return f"{e[1]}::{e[2]}{{…}}"
    if k == "with":
        return f"{show(e[1], depth + 1)}{{+= {', '.join(show(x, depth + 1) for x in e[2])}}}"
    return str(e)


def same_value(a, b):
    """Do two expression trees denote the same run-time value?  Calls are compared by call site
    (callee + block), variables by name + projection, everything else structurally via show()."""
    a, b = strip_casts(a), strip_casts(b)
    if not (isinstance(a, tuple) and isinstance(b, tuple) and a and b):
        return a == b
    if a[0] != b[0]:
        return False
    if a[0] == "call":
        return a[1] == b[1] and a[3] == b[3]
    if a[0] == "await":
        return a[2] == b[2]
    if a[0] == "var":
        return a[1] == b[1] and a[2] == b[2]
    if a[0] == "proj":
        return a[2] == b[2] and same_value(a[1], b[1])
    return show(a) == show(b)


def last_field(e):
    """Name of the innermost field a path / projection expression ends in (None otherwise)."""
    e = strip_casts(e)
    if isinstance(e, tuple) and e:
        if e[0] == "path":
            return e[1].split(".")[-1]
        if e[0] == "proj" and e[2]:
            return e[2][-1]
        if e[0] == "var" and e[2]:
            return e[2][-1]
    return None


def field_leaves(e):
    """Last field names of every path / projection node in an expression tree."""
    return [f for f in (last_field(x) for x in walk(e)) if f]
