"""C09 — wire format of protocol version 3 is stable and version-negotiated."""
import json
import os

import mir
from mir import callee
from common import *  # noqa: F401,F403
from robs_common import event_arms

EXPLANATION = (
    "Validation of the hand-written encoder and decoder programs against an independent table of the version-3 wire "
    "format (spec/chmux_v3.json): R09.1 compiler-evaluated protocol constants equal the table; R09.2 for every message "
    "variant the set of write-effect sequences (width, endianness, source field / code / flags) along all paths of the "
    "variant's arm of MultiplexMsg::write equals the table's layout (optional and repeated groups as specified) and the "
    "flag bits OR-ed into the flag byte are controlled by the specified fields; ExchangedCfg::write likewise; R09.3 "
    "MultiplexMsg::read dispatches on the specified codes, reads the specified widths in order, feeds each field from "
    "the read at its layout position and tests the specified flag masks; unknown codes and a wrong magic are rejected; "
    "R09.4 writer and reader agree arm by arm (both equal the table); R09.5 ids are sent only to peers announcing "
    "version >= PROTOCOL_VERSION_PORT_ID; R09.6 handshake order Reset, flush, Hello(version = PROTOCOL_VERSION), flush; "
    "a second frame is read iff the message is Data; R09.7 both length-delimited codecs are little-endian with a 4-byte "
    "length field. Nothing about bytes on a real socket is observed: the programs are compared with the table."
)
ASSUMPTIONS = [
    "byteorder's write_uN::<LE>/read_uN::<LE> and tokio-util's LengthDelimitedCodec builder behave as documented",
    "spec/chmux_v3.json is the published layout (written from the protocol description, not from the code)",
]
NOT_DECIDED = ["byte streams on a real transport; interoperability with builds not analysed here"]

VERIF = os.path.dirname(os.path.dirname(os.path.abspath(__file__)))
WIDTH = {"write_u8": "u8", "write_u16": "u16", "write_u32": "u32", "write_u64": "u64", "write_all": "bytes",
         "read_u8": "u8", "read_u16": "u16", "read_u32": "u32", "read_u64": "u64", "read_exact": "bytes"}


def _spec():
    return json.load(open(os.path.join(VERIF, "spec", "chmux_v3.json")))


def _endian(t):
    args = t["fn"].get("args", [])
    if any("LittleEndian" in a for a in args):
        return "le"
    if any("BigEndian" in a or "NetworkEndian" in a for a in args):
        return "be"
    return "-"


def _paths(b, start, region, stop, limit=4000):
    """All edge-simple paths from `start` staying inside `region` until a block in `stop` (or leaving the region)."""
    out = []
    stack = [(start, (start,), {})]
    while stack and len(out) < limit:
        bb, path, used = stack.pop()
        succs = [s for s in b.succ[bb]]
        moved = False
        for s in succs:
            if used.get((bb, s), 0) >= 2:      # a loop body is walked at most once (its header edges twice)
                continue
            if s in stop or s not in region:
                out.append(path + (s,))
                continue
            moved = True
            u2 = dict(used)
            u2[(bb, s)] = u2.get((bb, s), 0) + 1
            stack.append((s, path + (s,), u2))
        if not succs and not moved:
            out.append(path)
    return out


def _collapse(sites):
    """Remove immediate repetitions of the same call-site group (second loop iteration)."""
    sites = list(sites)
    changed = True
    while changed:
        changed = False
        for k in (1, 2, 3):
            i = 0
            while i + 2 * k <= len(sites):
                if sites[i:i + k] == sites[i + k:i + 2 * k]:
                    del sites[i + k:i + 2 * k]
                    changed = True
                else:
                    i += 1
    return sites


def _expand(layout):
    """Set of allowed effect sequences for a spec layout with opt / rep / rep-opt groups (a loop body is walked 0 or 1 times)."""
    seqs = [[]]
    reps = [f for f in layout if len(f) > 3 and f[3].startswith("rep")]
    for f in layout:
        w, e, src = f[0], f[1], f[2]
        kind = f[3] if len(f) > 3 else None
        item = (w, e, src)
        if kind is None:
            seqs = [s + [item] for s in seqs]
        elif kind == "opt":
            seqs = [s + [item] for s in seqs] + seqs
        elif kind == "rep":
            seqs = [s + [item] for s in seqs] + seqs
        elif kind == "rep-opt":
            # only together with the preceding repeated element
            seqs = [s + [item] for s in seqs if s and s[-1][2] == reps[0][2]] + seqs
    return {tuple(s) for s in seqs}


def _write_source(b, t, variant):
    c = callee(t)
    name = c.split("::")[-1]
    if c.endswith("ExchangedCfg::write"):
        return ("cfg", "-", "cfg")
    e = b.expr(t["a"][1])
    w = WIDTH.get(name, name)
    en = _endian(t)
    es = mir.strip_casts(e)
    if es[0] == "constdef":
        if es[1].endswith("::MAGIC"):
            return ("bytes6", "-", "magic")
        return (w, en, f"const:{es[1].split('::')[-1]}={es[2]}")
    if es[0] == "path":
        parts = es[1].split(".")
        fld = [p for p in parts if not p.startswith("@") and p not in ("self", "0")]
        return (w, en, fld[0] if fld else es[1])
    def flag_tree(x):
        x = mir.strip_casts(x)
        if not isinstance(x, tuple) or not x:
            return False
        if x[0] in ("var", "const", "constdef"):
            return True
        if x[0] == "bin" and x[1] in ("BitOr", "Add", "BitXor"):
            return flag_tree(x[2]) and flag_tree(x[3])
        return False
    if es[0] == "var" or (es[0] == "bin" and flag_tree(es)):
        return (w, en, "flags")
    sh = mir.show(es)
    # loop items: zip(ports, ids) -> .0 = ports, .1 = ids ; plain iteration over ports
    if "Iterator::next" in sh:
        if "Iterator::zip" in sh:
            tail = es[2] if es[0] == "proj" else ()
            return (w, en, "ports" if tail and tail[-1] == "0" else "ids")
        for p in mir.paths_in(es):
            if "@" in p:
                return (w, en, p.split(".")[-1])
    if es[0] == "proj":
        return (w, en, es[2][-1])
    return (w, en, sh[:40])


def r09_1(ck, F):
    ck.rule("R09.1", "compiler-evaluated values of the protocol constants (message codes, flag bits, MAGIC, versions, "
            "MAX_MSG_LENGTH) equal spec/chmux_v3.json",
            "a renumbered message code or flag bit: peers built from different sources cannot talk", floor=28)
    sp = _spec()
    for name, val in sp["constants"].items():
        c = F.const(name)
        ck.expect(c.get("value") == str(val), name, f"= {val}", f"{name} = {c.get('value')}, the published value is {val}",
                  None, )
    m = F.const("chmux::msg::MAGIC")
    ck.expect(m.get("bytes") == sp["magic"], "chmux::msg::MAGIC", "= b\"CHMUX\\0\"", f"MAGIC = {m.get('bytes')}", None)


def _flag_bits_written(b, region, variant):
    """{bit value: controlling field} for the flag byte of a variant arm of write()."""
    out = {}
    for bb, i, s in b.assigns():
        if bb not in region or len(s["p"]) != 1:
            continue
        rv = s["rv"]
        val = None
        if rv["r"] == "bin" and rv["op"] == "BitOr":
            val = const_value(b.expr(rv["b"])) or const_value(b.expr(rv["a"]))
        elif rv["r"] == "use" and b.local_ty(s["p"][0]) == "u8":
            val = const_value(b.expr(rv["o"]))
        if not val:
            continue
        fld = None
        for sw, tb, v in controlling_edges(b, bb):
            if sw not in region:
                continue
            e = switch_expr(b, sw)
            if switch_meaning(b, sw, v) is not True:
                continue
            ps = mir.paths_in(e)
            if ps:
                parts = [p for p in ps[0].split(".") if not p.startswith("@") and p != "self"]
                fld = parts[0] if parts else None
                break
        out[str(val)] = fld
    return out


def r09_2(ck, F):
    ck.rule("R09.2", "encoder layout: per variant arm of MultiplexMsg::write the set of write-effect sequences over all "
            "paths equals the table (code first, fields in order, widths, little endian, optional/repeated groups) and "
            "each flag bit is OR-ed in under the specified field; ExchangedCfg::write writes the four configuration "
            "fields in the specified order and widths",
            "a swapped field order / flag bit / width that encoder and decoder of the same build agree on is invisible "
            "to every test but breaks deployed peers", floor=17)
    sp = _spec()
    b = F.body("chmux::msg::MultiplexMsg::write")
    arms, sw, exhaustive = event_arms(b, MUX_MSG)
    oks = {bb for bb, i, v in b.result_stores("Ok")}
    ck.expect(exhaustive and set(arms) == set(sp["messages"]), "write#variants", f"{len(arms)} variants, no wildcard",
              f"write() arms {sorted(arms)} differ from the published message set", b.loc(sw))
    for v, (s, tb, region) in sorted(arms.items()):
        m = sp["messages"].get(v)
        if m is None:
            continue
        writes = {bb: t for bb, t in b.calls() if bb in region and
                  ((callee(t) or "").split("::")[-1] in WIDTH or (callee(t) or "").endswith("ExchangedCfg::write"))}
        seqs = set()
        for p in _paths(b, tb, region, oks, limit=200000):
            if p[-1] in region:
                continue   # dead end inside region
            if not (b.reach([p[-1]]) & oks) and p[-1] not in oks:
                continue   # error exit (`?`): a prefix, not a complete message
            seqs.add(tuple(_write_source(b, writes[x], v) for x in _collapse([x for x in p if x in writes])))
        want = {((("u8", "-", f"const:{[k for k, val in sp['constants'].items() if val == m['code'] and k.split('::')[-1].startswith('MSG_') and 'FLAG' not in k][0].split('::')[-1]}={m['code']}"),) + tuple(x))
                for x in _expand(m["layout"])}
        ck.expect(seqs == want, f"write#{v}", f"{len(seqs)} path sequence(s) match the layout {[f[2] for f in m['layout']]}",
                  f"encoder of {v} emits {sorted(seqs)[:3]}..., the published layout allows {sorted(want)[:3]}...", b.loc(tb),
                  {"emitted": sorted(map(list, seqs)), "allowed": sorted(map(list, want))})
        if "flags" in m:
            bits = _flag_bits_written(b, region, v)
            ck.expect(bits == m["flags"], f"write#{v}.flags", f"flag bits {bits}",
                      f"encoder of {v} sets flag bits {bits}, the published assignment is {m['flags']}", b.loc(tb))
    cb = F.body("chmux::msg::ExchangedCfg::write")
    seq = []
    for bb in [x for x in cb._rpo() if x in cb.reachable]:
        t = cb.term(bb)
        if t["t"] == "call" and (callee(t) or "").split("::")[-1] in WIDTH:
            e = cb.expr(t["a"][1])
            flds = [p.split(".")[-1] for p in mir.paths_in(e) if p.startswith("self.")]
            seq.append([WIDTH[callee(t).split("::")[-1]], _endian(t), flds[0] if flds else mir.show(e)[:30]])
    ck.expect(seq == sp["exchanged_cfg"], "ExchangedCfg::write", f"writes {seq}",
              f"ExchangedCfg::write emits {seq}, published {sp['exchanged_cfg']}", cb.loc(0))


def r09_3(ck, F):
    ck.rule("R09.3", "decoder layout: MultiplexMsg::read dispatches on the published codes (otherwise -> InvalidData), each "
            "arm reads the published widths in order (little endian), every field of the constructed variant derives "
            "from the read at its layout position or from the published flag mask; a wrong magic is an error; "
            "ExchangedCfg::read reads the configuration fields in order",
            "a decoder that accepts a different layout than the published one", floor=17)
    sp = _spec()
    b = F.body("chmux::msg::MultiplexMsg::read")
    # the dispatch switch: integer switch with most targets
    sws = [s for s in b.reachable if b.term(s)["t"] == "switch" and b.term(s)["ty"] == "u8"]
    if not sws:
        raise mir.AnchorMissing("dispatch on the message code in MultiplexMsg::read")
    sw = max(sws, key=lambda s: len(b.term(s)["targets"]))
    t = b.term(sw)
    codes = {int(v): tb for v, tb in t["targets"]}
    want_codes = {m["code"] for m in sp["messages"].values()}
    oth = t["otherwise"]
    oth_err = not any(bb in b.reach([oth]) for bb, i, v in b.result_stores("Ok"))
    ck.expect(set(codes) == want_codes and oth_err, "read#codes", f"dispatch on {sorted(codes)}, unknown codes rejected",
              f"decoder dispatches on {sorted(codes)} (published {sorted(want_codes)}); unknown code rejected: {oth_err}", b.loc(sw))
    reach = {c: b.reach([tb]) for c, tb in codes.items()}
    oks = {bb for bb, i, v in b.result_stores("Ok")}
    by_variant = {v: m for v, m in sp["messages"].items()}
    for v, m in sorted(by_variant.items()):
        c = m["code"]
        if c not in codes:
            continue
        region = reach[c] - set().union(*[r for c2, r in reach.items() if c2 != c])
        aggs = [(bb, i, rv) for bb, i, rv in b.aggregates(MUX_MSG) if bb in region]
        ck.expect(len(aggs) == 1 and aggs[0][2]["variant"] == v, f"read#{v}.variant", f"code {c} constructs {v}",
                  f"code {c} constructs {[a[2]['variant'] for a in aggs]}, published: {v}", b.loc(codes[c]))
        if len(aggs) != 1:
            continue
        reads = {bb: tt for bb, tt in b.calls() if bb in region and
                 ((callee(tt) or "").split("::")[-1] in WIDTH or (callee(tt) or "").endswith("ExchangedCfg::read"))}
        seqs = set()
        for p in _paths(b, codes[c], region, oks, limit=200000):
            if p[-1] in region or (not (b.reach([p[-1]]) & oks) and p[-1] not in oks):
                continue
            seqs.add(tuple(("cfg", "-") if (callee(reads[x]) or "").endswith("ExchangedCfg::read") else
                           (("bytes6" if WIDTH[callee(reads[x]).split("::")[-1]] == "bytes" else WIDTH[callee(reads[x]).split("::")[-1]]), _endian(reads[x]))
                           for x in _collapse([x for x in p if x in reads])))
        want = {tuple((w, e) for w, e, _ in x) for x in _expand(m["layout"])}
        rep = [f for f in m["layout"] if len(f) > 3 and f[3] == "rep"]
        if rep:
            # the decoder reads repeated groups until a read hits the end of the frame: one more attempt
            pre = tuple((f[0], f[1]) for f in m["layout"] if len(f) <= 3)
            r0 = (rep[0][0], rep[0][1])
            ro = [(f[0], f[1]) for f in m["layout"] if len(f) > 3 and f[3] == "rep-opt"]
            want = {pre + (r0,)} | ({pre + (r0, ro[0], r0)} if ro else set())
        ck.expect(seqs == want, f"read#{v}.layout", f"reads {sorted(seqs)[-1] if seqs else ()}",
                  f"decoder of {v} reads {sorted(seqs)}, published {sorted(want)}", b.loc(codes[c]))
        # field sources
        bb, i, rv = aggs[0]
        order = [x for x in b._rpo() if x in reads]
        lay = [f for f in m["layout"]]
        for fld, op in zip(rv["fields"], rv["ops"]):
            e = b.expr(op)
            masks = [const_value(x[3]) for x in mir.walk(e) if isinstance(x, tuple) and x and x[0] == "bin" and x[1] == "BitAnd"]
            pos = [order.index(cc[3]) for cc in mir.calls_in(e) if cc[3] in order]
            if masks:
                bit = str(masks[0])
                ck.expect(m.get("flags", {}).get(bit) == fld, f"read#{v}.{fld}", f"{fld} <- flag bit {bit}",
                          f"decoder takes {v}.{fld} from flag bit {bit}; published: {m.get('flags')}", b.loc(bb, i))
            elif pos:
                want_pos = [k for k, f in enumerate(lay) if f[2] == fld]
                ck.expect(want_pos and pos[0] == want_pos[0], f"read#{v}.{fld}", f"{fld} <- read #{pos[0]}",
                          f"decoder takes {v}.{fld} from read #{pos[0]}, published position {want_pos}", b.loc(bb, i))
    # magic check
    cmp_ = [bb for bb, tt in b.calls() if (callee(tt) or "").endswith(("PartialEq::ne", "PartialEq::eq")) and
            "MAGIC" in mir.show(b.expr(tt["a"][1])) + mir.show(b.expr(tt["a"][0]))]
    ck.expect(bool(cmp_), "read#magic", "the magic is compared", "Hello is accepted without checking the magic", b.loc(0))
    cb = F.body("chmux::msg::ExchangedCfg::read")
    seq = []
    for bb in [x for x in cb._rpo() if x in cb.reachable]:
        tt = cb.term(bb)
        if tt["t"] == "call" and (callee(tt) or "").split("::")[-1] in WIDTH:
            seq.append([WIDTH[callee(tt).split("::")[-1]], _endian(tt)])
    ck.expect(seq == [f[:2] for f in sp["exchanged_cfg"]], "ExchangedCfg::read", f"reads {seq}",
              f"ExchangedCfg::read reads {seq}, published {[f[:2] for f in sp['exchanged_cfg']]}", cb.loc(0))
    aggs = list(cb.aggregates("chmux::msg::ExchangedCfg"))
    if aggs:
        bb, i, rv = aggs[0]
        order = [x for x in cb._rpo() if cb.term(x)["t"] == "call" and (callee(cb.term(x)) or "").split("::")[-1] in WIDTH]
        for fld, op in zip(rv["fields"], rv["ops"]):
            pos = [order.index(cc[3]) for cc in mir.calls_in(cb.expr(op)) if cc[3] in order]
            want_pos = [k for k, f in enumerate(sp["exchanged_cfg"]) if f[2] == fld]
            ck.expect(pos[:1] == want_pos, f"ExchangedCfg::read.{fld}", f"{fld} <- read #{pos[:1]}",
                      f"ExchangedCfg.{fld} taken from read #{pos[:1]}, published position {want_pos}", cb.loc(bb, i))


def r09_5(ck, F):
    ck.rule("R09.5", "version negotiation: handle_event attaches port ids (OpenPort.id, PortData.ids) only when "
            "remote_protocol_version >= PROTOCOL_VERSION_PORT_ID",
            "ids sent to a version-2 peer, which cannot parse them", floor=2)
    b = F.main_body(HANDLE_EVENT)
    n = 0
    for var, fld in (("OpenPort", "id"), ("PortData", "ids")):
        for bb, i, rv in b.aggregates(MUX_MSG, var):
            n += 1
            e = b.expr(rv["ops"][rv["fields"].index(fld)])
            ts = [c for c in mir.calls_in(e) if c[1].endswith("bool::then_some")]
            ok = False
            for c in ts:
                g = c[2][0]
                ok = ok or (g[0] == "bin" and g[1] == "Ge" and any(p.endswith("remote_protocol_version") for p in mir.paths_in(g[2]))
                            and g[3][0] == "constdef" and g[3][1].endswith("PROTOCOL_VERSION_PORT_ID"))
            ck.expect(ok, f"handle_event#{var}.{fld}", f"{fld} gated by remote_protocol_version >= PROTOCOL_VERSION_PORT_ID",
                      f"{var}.{fld} = {mir.show(e)[:120]} is not gated by the peer's protocol version", b.loc(bb, i))
    ck.expect(n == 2, "handle_event#id-sites", "2 id-carrying messages", f"{n} found", b.loc(0))


def r09_6(ck, F):
    ck.rule("R09.6", "handshake: exchange_hello feeds Reset, flushes, feeds Hello{version: PROTOCOL_VERSION, cfg}, flushes; "
            "recv_msg reads a second frame iff the decoded message is Data; feed_msg feeds the payload as its own frame",
            "a peer waiting for Hello never sees it / payload glued to the header frame", floor=4)
    fam = F.family("chmux::mux::ChMux::exchange_hello")
    send = None
    for x in fam:
        v = [rv["variant"] for bb, i, rv in x.aggregates(MUX_MSG)]
        if "Reset" in v and "Hello" in v and x.kind == "coroutine":
            send = x
    if send is None:
        raise mir.AnchorMissing("send half of exchange_hello")
    order = [x for x in send._rpo() if x in send.reachable]
    evs = []
    for bb in order:
        for i, s in enumerate(send.stmts(bb)):
            if s["k"] == "assign" and s["rv"]["r"] == "agg" and s["rv"].get("adt") == MUX_MSG:
                evs.append(s["rv"]["variant"])
        t = send.term(bb)
        if t["t"] == "call" and (callee(t) or "").endswith("ChMux::flush"):
            evs.append("flush")
    ck.expect(evs == _spec()["handshake"], "exchange_hello#order", f"{evs}", f"handshake order {evs}, published {_spec()['handshake']}",
              send.loc(0))
    for bb, i, rv in send.aggregates(MUX_MSG, "Hello"):
        e = send.expr(rv["ops"][rv["fields"].index("version")])
        ck.expect(e[0] == "constdef" and e[1].endswith("::PROTOCOL_VERSION"), "exchange_hello#version",
                  "announces PROTOCOL_VERSION", f"announces {mir.show(e)}", send.loc(bb, i))
    rb = F.main_body("chmux::mux::ChMux::recv_msg")
    nexts = [a for a in rb.awaits() if "Next" in a.get("fut_ty", "") or "next" in (a.get("fut_fn") or "").lower()]
    ok = len(nexts) == 2
    if ok:
        second = nexts[1]
        ce = [(switch_expr(rb, s), switch_meaning(rb, s, v)) for s, tb, v in controlling_edges(rb, second["poll_bb"])]
        ok = any(e[0] == "discr" and m == "Data" for e, m in ce)
    ck.expect(ok, "recv_msg#second-frame-iff-Data", "second frame read only for Data",
              "recv_msg does not read the payload frame exactly for Data messages", rb.loc(0))
    fb = F.main_body("chmux::mux::ChMux::feed_msg")
    feeds = [bb for bb, t in fb.calls() if (callee(t) or "").endswith("SinkExt::feed")]
    ck.expect(len(feeds) == 2, "feed_msg#two-frames", "header and payload fed as separate frames",
              f"{len(feeds)} feed calls", fb.loc(0))


def r09_6b(ck, F):
    ck.rule("R09.6b", "foreign frames before Hello are ignored: in the receive half of exchange_hello both a decoded message "
            "that is not Hello and a frame that fails to decode (ChMuxError::Protocol) lead back to the next recv_msg; only "
            "other errors end the handshake",
            "a leftover / newer-version / garbage frame precedes the peer's Hello (reused link): the handshake aborts with a "
            "protocol error although a well-formed Reset + Hello follow", floor=2)
    fam = F.family("chmux::mux::ChMux::exchange_hello")
    recv = None
    for x in fam:
        if x.kind == "coroutine" and any((a.get("fut_fn") or "").endswith("recv_msg::{closure#0}") for a in x.awaits()):
            recv = x
    if recv is None:
        raise mir.AnchorMissing("receive half of exchange_hello (the block awaiting recv_msg)")
    a = [a for a in recv.awaits() if (a.get("fut_fn") or "").endswith("recv_msg::{closure#0}")][0]
    poll, ready = a["poll_bb"], a["ready_bb"]
    region = recv.reach([ready], avoid=[poll])
    edges = outcome_edges(recv, region)
    ok_back = [tb for sb, tb, m, e in edges if m == "Ok" and poll in recv.reach([tb], avoid=[sb])]
    ck.expect(bool(ok_back), "exchange_hello#skip-other-messages", "a decoded non-Hello message leads to the next recv_msg",
              "exchange_hello does not continue receiving after a message that is not Hello", recv.loc(ready))
    proto_back = [tb for sb, tb, m, e in edges if m == "Protocol" and poll in recv.reach([tb], avoid=[sb])]
    ck.expect(bool(proto_back), "exchange_hello#skip-undecodable", "a frame that fails to decode (Protocol error) leads to the next recv_msg",
              "exchange_hello ends the handshake on a frame that fails to decode: ChMuxError::Protocol from recv_msg is not ignored "
              "before Hello", recv.loc(ready))


def r09_7(ck, F):
    ck.rule("R09.7", "framing: both LengthDelimitedCodec builders of Connect::io are little_endian() with "
            "length_field_length(4)", "length prefix in the wrong byte order / width", floor=2)
    bodies = [b for k, b in F.bodies.items() if k.startswith("connect::Connect") and "::io" in k]
    bl = [b for b in bodies if list(b.calls("tokio_util::codec::LengthDelimitedCodec::builder"))]
    if not bl:
        raise mir.AnchorMissing("LengthDelimitedCodec::builder in Connect::io")
    b = bl[0]
    builders = [bb for bb, t in b.calls("tokio_util::codec::LengthDelimitedCodec::builder")]
    ck.expect(len(builders) == 2, "Connect::io#builders", "two codecs (sink, stream)", f"{len(builders)} builders", b.loc(0))
    for k, bld in enumerate(builders):
        # chain: calls whose receiver expression contains this builder call
        chain = {}
        for bb, t in b.calls():
            c = callee(t) or ""
            if c.startswith("tokio_util::codec::length_delimited::Builder::") and t["a"]:
                if any(cc[3] == bld for cc in mir.calls_in(b.expr(t["a"][0]))):
                    chain[c.split("::")[-1]] = (bb, t)
        le = "little_endian" in chain and "big_endian" not in chain
        lfl = "length_field_length" in chain and const_value(b.expr(chain["length_field_length"][1]["a"][1])) == 4
        ck.expect(le and lfl, f"Connect::io#codec{k}", "little_endian, 4-byte length field",
                  f"codec {k}: little_endian={le}, length_field_length(4)={lfl} (calls: {sorted(chain)})", b.loc(bld))


def run(ck, F):
    for r in (r09_1, r09_2, r09_3, r09_5, r09_6, r09_6b, r09_7):
        ck.run_rule(r)
