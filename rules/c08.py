"""C08 — robustness against an arbitrary or hostile peer."""
import json
import os

import mir
from mir import callee
from common import *  # noqa: F401,F403

EXPLANATION = (
    "Static rules for the receive path: R08.1 call-graph closure (crate-local, resolved callees, closures and async "
    "blocks) from the peer-input entry points; every diverging construct in that set (calls that never return: panic!, "
    "assert!, unreachable!; Option/Result unwrap/expect; MIR Assert terminators for overflow, bounds, division) must be "
    "listed in spec/panic_allow.json with the invariant that makes it unreachable for peer input, or belong to an "
    "enumerated class (tokio macro internals, std Mutex poisoning, constant non-zero divisors); an unlisted site is a "
    "violation; R08.2 every failed port lookup in handle_received_msg leads to a ChMuxError::Protocol return, never to "
    "Ok; R08.3 the only unbounded queue is fed with credit-carrying messages (type-enforced), the listen queues are "
    "bounded by connect_queue + 1 and a full queue is a protocol error; R08.4 the decoder rejects unknown message codes "
    "and a wrong magic; R08.5 the stream codec's frame cap derives from Cfg::max_frame_length = MAX_MSG_LENGTH + "
    "chunk_size. Total memory in bytes and correctness of continued operation after legal-but-odd frames are not decided."
)
ASSUMPTIONS = [
    "the invariants written in spec/panic_allow.json (confirmed by reading the code); panics inside dependencies "
    "(tokio, bytes, std) are not analysed",
    "call graph: calls through trait objects / generic parameters are not followed (listed as unresolved in evidence)",
]
NOT_DECIDED = ["total memory in bytes", "correct continued operation after legal but unusual frame sequences"]

VERIF = os.path.dirname(os.path.dirname(os.path.abspath(__file__)))
ENTRY = [
    "chmux::mux::ChMux::recv_msg", "chmux::mux::ChMux::handle_received_msg", "chmux::msg::MultiplexMsg::read",
    "chmux::msg::MultiplexMsg::from_slice", "chmux::msg::ExchangedCfg::read", "chmux::mux::ChMux::exchange_hello",
    "chmux::mux::ChMux::recv_task", "chmux::listener::Request::new", "chmux::receiver::Receiver::recv_any",
    "chmux::receiver::Receiver::recv_chunk", "chmux::mux::ChMux::handle_event", "chmux::listener::Listener::accept",
    "chmux::listener::Request::accept_from", "chmux::listener::Request::reject",
    # sender-side arithmetic on quantities the peer controls (granted credit)
    "chmux::credit::CreditUser::request", "chmux::credit::CreditUser::try_request",
    "<chmux::credit::AssignedCredits as std::ops::Drop>::drop", "chmux::credit::AssignedCredits::take",
]
CLASS_MACROS = {
    "tokio::select": "internal invariant of tokio::select! (branch bookkeeping; `all branches are disabled` cannot occur: "
                     "every select here has an unconditional branch or an else-free pattern checked by its own tests)",
    "tokio::try_join": "internal invariant of tokio::try_join! (output taken exactly once after completion)",
    "tokio::join": "internal invariant of tokio::join!",
    "tokio::pin": "tokio::pin! expansion",
    "futures::pin_mut": "pin_mut! expansion",
}
UNWRAPS = {"std::option::Option::unwrap", "std::option::Option::expect", "std::result::Result::unwrap",
           "std::result::Result::expect", "std::result::Result::unwrap_err", "std::result::Result::expect_err"}


def closure_from(F, entries):
    seen = {}
    work = []
    unresolved = 0

    def add(b):
        if b is not None and b.dp not in seen and b.crate == "remoc":
            seen[b.dp] = b
            work.append(b)
    for e in entries:
        for x in F.family(e):
            add(x)
    while work:
        b = work.pop()
        for bb, t in b.calls():
            fn = t.get("fn")
            if fn is None:
                unresolved += 1
                continue
            dp = fn.get("resolved_dp") or (fn.get("dp") if fn.get("local") else None)
            if dp:
                nb = F.by_dp.get(("remoc", dp))
                if nb is not None:
                    for x in [nb] + F.children.get(("remoc", nb.dp), []):
                        add(x)
        for bb, i, s in b.assigns():
            rv = s["rv"]
            if rv["r"] == "agg" and rv.get("kind") in ("closure", "coroutine"):
                add(F.by_dp.get(("remoc", rv["dp"])))
    return seen, unresolved


def diverging_sites(b):
    """[(kind, bb, detail)] kind in call/unwrap/assert."""
    out = []
    for bb in sorted(b.reachable):
        t = b.term(bb)
        if t["t"] == "call":
            c = callee(t) or "<indirect>"
            if t["tgt"] is None:
                out.append(("diverge", bb, c))
            elif c in UNWRAPS:
                out.append(("unwrap", bb, c))
        elif t["t"] == "assert":
            out.append(("assert", bb, t["msg"]))
    return out


def classify(b, kind, bb, detail):
    """Class-level allowance (returns reason) or None."""
    t = b.term(bb)
    xm = t.get("xm")
    if xm in CLASS_MACROS:
        return f"class:{xm}"
    if xm and xm.startswith("tracing::"):
        return "class:tracing macro"
    if kind == "unwrap" and detail.startswith("std::result::Result::"):
        e = b.expr(t["a"][0])
        if e[0] == "call" and e[1] in ("std::sync::Mutex::lock", "std::sync::RwLock::read", "std::sync::RwLock::write"):
            return "class:std lock poisoning (only after another panic while the lock was held)"
    if kind == "assert" and detail in ("DivisionByZero", "RemainderByZero"):
        e = b.expr(t["cond"])
        if e[0] == "bin" and e[1] == "Eq" and const_value(e[2]) not in (None, 0) and const_value(e[3]) == 0:
            return "class:constant non-zero divisor"
        if e[0] == "bin" and e[1] == "Eq" and (size_of_value(e[2]) or 0) > 0:
            return "class:constant non-zero divisor"
    return None


def r08_1(ck, F):
    ck.rule("R08.1", "no panic reachable from peer input, modulo the triaged table: every diverging construct in the "
            "call-graph closure of the receive-path entry points is class-allowed or listed in spec/panic_allow.json",
            "the malformed / out-of-order frame that reaches an unlisted unwrap, assert or arithmetic check panics the "
            "dispatcher task (all ports of the connection die)", floor=25)
    allow = json.load(open(os.path.join(VERIF, "spec", "panic_allow.json")))["sites"]
    seen, unresolved = closure_from(F, ENTRY)
    ck.ok("closure#size", f"{len(seen)} bodies in the closure of {len(ENTRY)} entry points ({unresolved} indirect calls not followed)", None)
    used = set()
    for dp, b in sorted(seen.items()):
        fn = mir.strip_generics(b.path)
        groups = {}
        counters = {}
        for kind, bb, detail in diverging_sites(b):
            cls = classify(b, kind, bb, detail)
            if cls:
                k = (kind, detail)
                counters[k] = counters.get(k, 0) + 1
                ck.ok(f"{fn}|{detail}|class{counters[k]}", cls, b.loc(bb), nontrivial=False)
                continue
            groups.setdefault(detail, []).append((kind, bb))
        # the table is matched per (function, construct) by count: helper functions the rules do not know are spliced
        # into their callers (inline.py), so moving a listed site into a new helper keeps its attribution; a site beyond
        # the listed number is new
        for detail, sites in sorted(groups.items()):
            listed = sorted((k for k in allow if k.startswith(f"{fn}|{detail}|")), key=lambda k: int(k.rsplit("|", 1)[1]))
            for n, (kind, bb) in enumerate(sites):
                key = f"{fn}|{detail}|{n + 1}"
                ent = allow.get(listed[n]) if n < len(listed) else None
                if ent:
                    used.add(listed[n])
                ck.expect(ent is not None, key, f"listed: {ent['reason'] if ent else ''}",
                          f"{kind} `{detail}` in {fn} is reachable from a peer-input entry point and is not in "
                          f"spec/panic_allow.json ({len(sites)} such sites, {len(listed)} listed)", b.loc(bb),
                          {"function": b.path, "construct": detail})
    stale = sorted(set(allow) - used)
    if stale:
        print(f"note: {len(stale)} stale entries in spec/panic_allow.json: {stale[:5]}")


def r08_1b(ck, F):
    ck.rule("R08.1b", "ChannelCreditReturner::start_return (which asserts that no credit return is pending) is reached "
            "only after a completed return_flush().await since function entry and since the previous start_return",
            "two frames consumed back to back while the shared event queue is full: the second start_return panics "
            "('start_return called without return_flush')", floor=4)
    n = 0
    for fn in ("chmux::receiver::Receiver::recv_any", "chmux::receiver::Receiver::recv_chunk"):
        for b in F.family(fn):
            starts = [bb for bb, t in b.calls("chmux::credit::ChannelCreditReturner::start_return")]
            if not starts:
                continue
            flushed = {a["ready_bb"] for a in b.awaits()
                       if (a.get("fut_fn") or "").startswith("chmux::credit::ChannelCreditReturner::return_flush")
                       and a.get("ready_bb") is not None}
            for k, sbb in enumerate(starts):
                n += 1
                p1 = b.find_path([0], [sbb], avoid=flushed)
                p2 = b.find_path(starts, [sbb], avoid=flushed, from_succ=True)
                ck.expect(bool(flushed) and p1 is None and p2 is None, f"{fn.split('::')[-1]}#start_return{k}",
                          "dominated by a completed return_flush since entry / the previous start_return",
                          f"start_return at {b.loc(sbb)} can be reached without an intervening return_flush().await",
                          b.loc(sbb))
    ck.expect(n >= 4, "start_return#sites", f"{n} sites", f"only {n} start_return sites", None)


def r08_2(ck, F):
    ck.rule("R08.2", "state checks return errors: in handle_received_msg every failed lookup of the port table (None / "
            "wrong state) reaches a protocol_err(..) return and cannot reach the Ok result",
            "a frame for a port that is not connected would be silently accepted (or worse)", floor=8)
    b = F.main_body(HANDLE_RECEIVED)
    oks = [bb for bb, i, v in b.result_stores("Ok")]
    perr = {bb for bb, t in b.calls("chmux::mux::protocol_err")}
    n = 0
    for bb, t in b.calls():
        c = callee(t) or ""
        if c not in ("std::collections::HashMap::get_mut", "std::collections::HashMap::remove",
                     "std::collections::HashMap::remove_entry", "std::collections::HashMap::get"):
            continue
        if mir.last_field(b.expr(t["a"][0])) != "ports":
            continue
        n += 1
        # failing edges: every switch on a discriminant of (a projection of) this call's result
        bad_targets = []
        for s in b.reachable:
            tt = b.term(s)
            if tt["t"] != "switch":
                continue
            e = switch_expr(b, s)
            if e[0] != "discr":
                continue
            x = e[1]
            if x[0] == "proj":
                x = x[1]
            if not (x[0] == "call" and x[3] == bb):
                continue
            if not b.dominates(bb, s):
                continue
            taken = {v for v, _ in tt["targets"]}
            names = [switch_meaning(b, s, v) for v, _ in tt["targets"]]
            # the "otherwise" edge of such a match is the failure edge (None / Connecting instead of Connected ...)
            oth = tt["otherwise"]
            if b.term(oth)["t"] != "unreachable":
                bad_targets.append(oth)
            for v, tb in tt["targets"]:
                if switch_meaning(b, s, v) == "None":
                    bad_targets.append(tb)
        p = b.find_path(bad_targets, oks, avoid=perr) if bad_targets else None
        ck.expect(bool(bad_targets) and p is None, f"handle_received_msg#lookup{n}@{c.split('::')[-1]}",
                  f"{len(bad_targets)} failure edge(s) all end in a protocol error",
                  f"a failed port lookup at {b.loc(bb)} can reach Ok(()) without a protocol error", b.loc(bb))


def r08_3(ck, F):
    ck.rule("R08.3", "bounded buffering: both listen queues are created with connect_queue + 1 slots and a Full result of "
            "try_send is a protocol error; messages queued to a port's unbounded queue carry a UsedCredit (field type)",
            "a peer flooding OpenPort requests or data makes the endpoint buffer without bound", floor=5)
    nb = F.main_body("chmux::mux::ChMux::new")
    chans = [(bb, t) for bb, t in nb.calls("tokio::sync::mpsc::channel")
             if "RemoteConnectMsg" in " ".join(t["fn"].get("args", []))]
    ck.expect(len(chans) == 2, "ChMux::new#listen-queues", "two bounded listen queues", f"{len(chans)} listen queues", nb.loc(0))
    for k, (bb, t) in enumerate(chans):
        e = nb.expr(t["a"][0])
        ok = e[0] == "bin" and e[1] == "Add" and any(p.endswith("connect_queue") for p in mir.paths_in(e)) and const_value(e[3]) == 1
        ck.expect(ok, f"ChMux::new#listen-queue{k}", "capacity connect_queue + 1", f"capacity {mir.show(e)}", nb.loc(bb))
    b = F.main_body(HANDLE_RECEIVED)
    ts = [(bb, t) for bb, t in b.calls("tokio::sync::mpsc::Sender::try_send")]
    oks = [bb for bb, i, v in b.result_stores("Ok")]
    perr = {bb for bb, t in b.calls("chmux::mux::protocol_err")}
    for k, (bb, t) in enumerate(ts):
        # the Full outcome of this try_send leads to protocol_err
        full_edges = []
        for s in b.reachable:
            tt = b.term(s)
            if tt["t"] != "switch":
                continue
            e = switch_expr(b, s)
            if e[0] == "discr" and any(cc[3] == bb for cc in mir.calls_in(e)):
                for v, tb in tt["targets"]:
                    if switch_meaning(b, s, v) == "Full":
                        full_edges.append(tb)
        if not full_edges:
            ck.bad(f"handle_received_msg#try_send{k}", "the Full outcome of try_send on a listen queue is not examined", b.loc(bb))
            continue
        # Full must reach a protocol error (directly or via a `failed` flag): no Ok without protocol_err when full
        flags = [sb for sb, i, s in b.assigns() if sb in b.reach(full_edges) and s["rv"]["r"] == "use"
                 and const_value(b.expr(s["rv"]["o"])) == 1 and b.local_ty(s["p"][0]) == "bool"]
        p = b.find_path(full_edges, oks, avoid=perr | set(flags))
        ck.expect(p is None, f"handle_received_msg#try_send{k}", "queue full -> protocol error",
                  f"a full listen queue at {b.loc(bb)} is ignored", b.loc(bb))
    for adt in ("chmux::receiver::ReceivedData", "chmux::receiver::ReceivedPortRequests"):
        f = F.adt_fields(adt)
        ck.expect(f.get("credit", {}).get("ty") == "chmux::credit::UsedCredit", f"{adt.split('::')[-1]}#credit-field",
                  "carries a UsedCredit", f"{adt}.credit is {f.get('credit')}", None)


def r08_3b(ck, F):
    ck.rule("R08.3b", "every frame queued to a port's unbounded queue costs at least one receive credit: the amount given to "
            "ChannelCreditMonitor::use_credits is max(.., 1) or the frame is rejected when its size is zero",
            "a peer sending empty PortData frames to a port whose receiver is idle: they cost nothing, never exceed the "
            "credit limit and are buffered without bound", floor=2)
    b = F.main_body(HANDLE_RECEIVED)
    for k, (bb, t) in enumerate(sorted(b.calls("chmux::credit::ChannelCreditMonitor::use_credits"))):
        e = b.expr(t["a"][1])
        mx = [c for c in mir.calls_in(e, "std::cmp::Ord::max") if any(const_value(a) is not None and const_value(a) >= 1 for a in c[2])]
        guarded = False
        for s, tb, v in controlling_edges(b, bb):
            ce = switch_expr(b, s)
            if ce[0] == "call" and ce[1].endswith("::is_empty") and switch_meaning(b, s, v) is False:
                guarded = True
            if ce[0] == "bin" and ce[1] in ("Gt", "Ge", "Ne") and const_value(ce[3]) is not None and switch_meaning(b, s, v) is True:
                guarded = True
        ck.expect(bool(mx) or guarded, f"handle_received_msg#use_credits{k}-min-cost", "frame costs at least one credit",
                  f"use_credits({mir.show(e)[:70]}) can be zero: such frames are queued for free", b.loc(bb))


def r08_3c(ck, F):
    ck.rule("R08.3c", "reassembly buffers are bounded: DataBuf::try_push appends only under (remaining + len) <= max_size "
            "(checked addition) and stores that sum; recv_any keeps an accumulated port-request list in self.receiving only "
            "after its length was compared against self.max_ports; the caller of try_push passes self.max_data_size",
            "a peer streaming non-final chunks grows the receiver's reassembly buffer without bound (credits are returned "
            "per chunk, so flow control does not limit a single message)", floor=3)
    b = F.body("chmux::receiver::DataBuf::try_push")
    pushes = [bb for bb, t in b.calls("std::collections::VecDeque::push_back")] + [bb for bb, t in b.calls("std::collections::VecDeque::push_front")]
    ok = bool(pushes)
    for bb in pushes:
        ce = conds(b, bb)
        le = any(e[0] == "bin" and ((e[1] in ("Le", "Lt") and m is True) or (e[1] in ("Gt", "Ge") and m is False)) and
                 any(x.split(".")[-1] == "max_size" for x in mir.paths_in(e[3])) and
                 (arith(e[2]) or (None,))[0] == "Add" for e, m in ce)
        ok = ok and le
    ck.expect(ok, "DataBuf::try_push#bounded", "push only under remaining + len <= max_size",
              "DataBuf::try_push appends without comparing the new total against max_size", b.loc(pushes[0]) if pushes else b.loc(0))
    rd = F.body("chmux::receiver::Receiver::recv_data")
    tp = [(bb, t) for bb, t in rd.calls("chmux::receiver::DataBuf::try_push")]
    ok = bool(tp) and all(mir.last_field(rd.expr(t["a"][2])) == "max_data_size" for bb, t in tp)
    ck.expect(ok, "Receiver::recv_data#limit", "try_push(buf, self.max_data_size)",
              f"try_push limit is {[mir.show(rd.expr(t['a'][2])) for bb, t in tp]}", rd.loc(tp[0][0]) if tp else rd.loc(0))
    ra = F.main_body("chmux::receiver::Receiver::recv_any")
    ext = [bb for bb, t in ra.calls() if (callee(t) or "").split("::")[-1] in ("extend", "append", "push", "extend_from_slice")
           and "Requests" in mir.show(ra.expr(t["a"][0]))]
    stores = [bb for bb, i, rv in ra.aggregates("chmux::receiver::Receiving", "Requests")
              if not (rv["ops"] and mir.calls_in(ra.expr(rv["ops"][0]), "std::vec::Vec::new") and ra.expr(rv["ops"][0])[0] == "call")]
    if not ext or not stores:
        raise mir.AnchorMissing("port request accumulation in recv_any")
    gates = [tb for sb, tb, m, e in switch_edges(ra, lambda e: e[0] == "bin" and e[1] in ("Gt", "Ge", "Le", "Lt") and
                                                 any(x.split(".")[-1] == "max_ports" for x in mir.paths_in(e))) if (e[1] in ("Gt", "Ge")) == (m is False)]
    p_ = ra.find_path(ext, stores, avoid=gates) if gates else [ext[0]]
    ck.expect(p_ is None, "Receiver::recv_any#max-ports", "accumulated requests are kept only after the max_ports comparison",
              f"recv_any stores the accumulated port requests without comparing their number against max_ports (path {p_})",
              ra.loc(ext[0]))


def r08_6(ck, F):
    ck.rule("R08.6", "the set of outstanding remote port requests is kept element by element: in the dispatcher (mux.rs) the only "
            "mutating operations on ChMux.outstanding_remote_port_requests are HashSet::insert and HashSet::remove, and the bool "
            "result of every insert made while handling a received message is examined with the `false` outcome (port already "
            "outstanding) leading to a protocol error",
            "a PortData frame listing the same remote port twice: two Requests for one set entry reach the user, the second "
            "answer (accept / reject / drop) makes handle_event panic 'non-outstanding remote port' instead of ending the "
            "connection with a protocol error", floor=3)
    FIELD = "outstanding_remote_port_requests"
    n = 0
    for b in F.by_dp.values():
        if b.crate != "remoc" or not b.file.endswith("chmux/mux.rs"):
            continue
        for bb, t in b.calls():
            c = callee(t) or ""
            if not t["a"] or t["fn"].get("recv") != "mut":
                continue
            e = b.expr(t["a"][0])
            if mir.last_field(e) != FIELD:
                continue
            n += 1
            name = c.split("::")[-1]
            site = f"{fn_short(b.path)}#{name}@{n}"
            if name not in ("insert", "remove"):
                ck.bad(site, f"{fn_short(b.path)} changes {FIELD} with {c}: elements are added / removed without a per-element result "
                       f"(a duplicate inside one frame goes unnoticed)", b.loc(bb))
                continue
            if name == "insert" and "handle_received_msg" in b.path:
                # result examined: a switch on the call result whose false edge reaches a protocol_err
                d = t.get("d")
                examined = False
                for s_ in b.reach([bb], include_start=False):
                    tt = b.term(s_)
                    if tt["t"] != "switch":
                        continue
                    se = switch_expr(b, s_)
                    inner = se
                    neg = False
                    while isinstance(inner, tuple) and inner and inner[0] == "un" and inner[1] == "Not":
                        inner, neg = inner[2], not neg
                    if isinstance(inner, tuple) and inner and inner[0] == "call" and inner[1] == c and len(inner) > 3 and inner[3] == bb:
                        for v, tb in list(tt["targets"]) + [(None, tt["otherwise"])]:
                            m = switch_meaning(b, s_, v)
                            if isinstance(m, bool) and (m != neg) is False:
                                perr = [q for q, t2 in b.calls() if (callee(t2) or "").endswith("protocol_err") and q in b.reach([tb])]
                                oks = {q for q, i2, v2 in b.result_stores("Ok")}
                                if perr and b.find_path([tb], list(oks), avoid=perr) is None:
                                    examined = True
                ck.expect(examined, site, "insert result examined; duplicate -> protocol error",
                          f"{fn_short(b.path)}: the result of {FIELD}.insert(..) is not examined (a port that is already outstanding must "
                          f"be a protocol error)", b.loc(bb))
            else:
                ck.ok(site, f"{name}", b.loc(bb))
    ck.expect(n >= 3, "outstanding#sites", f"{n} mutating accesses", f"only {n} mutating accesses of {FIELD} found in mux.rs", None)


def r08_4(ck, F):
    ck.rule("R08.4", "the decoder is total: MultiplexMsg::read has an otherwise branch that returns an error, compares "
            "the magic, and from_slice maps decode errors to ChMuxError::Protocol",
            "an unknown message id would be treated as some other message / panic", floor=2)
    b = F.body("chmux::msg::MultiplexMsg::read")
    sws = [s for s in b.reachable if b.term(s)["t"] == "switch" and b.term(s)["ty"] == "u8"]
    sw = max(sws, key=lambda s: len(b.term(s)["targets"]))
    oth = b.term(sw)["otherwise"]
    oks = [bb for bb, i, v in b.result_stores("Ok")]
    ck.expect(b.term(oth)["t"] != "unreachable" and not (b.reach([oth]) & set(oks)), "MultiplexMsg::read#otherwise",
              "unknown code -> Err", "unknown message codes are not rejected", b.loc(sw))
    fs = F.body("chmux::msg::MultiplexMsg::from_slice")
    prot = [bb for bb, i, rv in fs.aggregates("chmux::ChMuxError", "Protocol")] + \
           [bb for x in F.family("chmux::msg::MultiplexMsg::from_slice") for bb, i, rv in x.aggregates("chmux::ChMuxError", "Protocol")]
    ck.expect(bool(prot), "MultiplexMsg::from_slice#protocol-error", "decode errors become ChMuxError::Protocol",
              "from_slice does not map decode errors to a protocol error", fs.loc(0))


def r08_5(ck, F):
    ck.rule("R08.5", "frame cap: the stream codec built in Connect::io gets max_frame_length from "
            "Cfg::max_frame_length(), which is MAX_MSG_LENGTH + chunk_size",
            "a peer announcing a 4 GiB frame makes the endpoint allocate it", floor=2)
    bodies = [b for k, b in F.bodies.items() if k.startswith("connect::Connect") and "::io" in k]
    bl = [b for b in bodies if list(b.calls("tokio_util::codec::LengthDelimitedCodec::builder"))]
    if not bl:
        raise mir.AnchorMissing("LengthDelimitedCodec::builder in Connect::io")
    b = bl[0]
    mfl = [(bb, t) for bb, t in b.calls("tokio_util::codec::length_delimited::Builder::max_frame_length")]
    # the stream side is the one passed to new_read / used with FramedRead; identify by argument provenance
    derived = [bb for bb, t in mfl if mir.calls_in(b.expr(t["a"][1]), "chmux::cfg::Cfg::max_frame_length")]
    reads = [bb for bb, t in b.calls() if (callee(t) or "").endswith("Builder::new_read")]
    ok = bool(derived) and bool(reads) and any(any(cc[3] == d for cc in mir.calls_in(b.expr(b.term(r)["a"][0]))) for r in reads for d in derived)
    ck.expect(ok, "Connect::io#stream-cap", "the reading codec is capped by Cfg::max_frame_length()",
              "the receiving codec's max_frame_length does not derive from Cfg::max_frame_length()", b.loc(0))
    cb = F.body("chmux::cfg::Cfg::max_frame_length")
    e = cb.expr(["c", [0]])
    sh = mir.show(e) if e else ""
    ok = "MAX_MSG_LENGTH" in sh and "chunk_size" in sh and ("Add" in sh or "checked_add" in sh or "saturating_add" in sh)
    ck.expect(ok, "Cfg::max_frame_length", f"= {sh[:80]}", f"Cfg::max_frame_length = {sh[:120]}", cb.loc(0))


def run(ck, F):
    import c02
    for r in (r08_1, r08_1b, r08_2, r08_3, r08_3b, r08_3c, r08_4, r08_5, r08_6):
        ck.run_rule(r)
    # shared clauses: the buffering bound rests on the receive-side accounting and on the right limit being wired
    for r in (c02.r02_5, c02.r02_6, c02.r02_7, c02.r02_4):
        ck.run_rule(r)
    import c03
    ck.run_rule(c03.r03_2b)    # (= second half of R08.4) the peer's Hello configuration is validated before use


if __name__ == "__main__":
    # print candidate table entries for triage
    import sys
    sys.path.insert(0, os.path.dirname(os.path.abspath(__file__)))
    import extract
    F = mir.Facts(extract.extract(verbose=False))
    seen, _ = closure_from(F, ENTRY)
    for dp, b in sorted(seen.items()):
        counters = {}
        fn = mir.strip_generics(b.path)
        for kind, bb, detail in diverging_sites(b):
            k = (kind, detail)
            counters[k] = counters.get(k, 0) + 1
            if classify(b, kind, bb, detail):
                continue
            t = b.term(bb)
            args = [mir.show(b.expr(a))[:70] for a in t.get("a", [])][:2] if t["t"] == "call" else mir.show(b.expr(t["cond"]))[:90]
            print(f"{fn}|{detail}|{counters[k]}   @ {b.loc(bb)}  {t.get('xm') or ''}  {args}")
