"""C06 — fail-stop: transport failure at any point errors every operation, hangs nothing."""
import mir
from mir import callee
from common import *  # noqa: F401,F403

EXPLANATION = (
    "Static rules for failure propagation: R06.1 closed-channel arms are terminal: in the port-level API functions "
    "(Receiver::recv_any / recv_chunk, Listener::accept / inspect, the response tasks of Client::connect_ext and "
    "Sender::connect, Request::accept_from) the outcome 'dispatcher-owned channel closed' leads to an error result and "
    "cannot reach another suspension point; CreditUser::request re-evaluates Weak::upgrade in every iteration and "
    "returns SendError::ChMux when the dispatcher is gone; every queue operation on Sender.tx in sender.rs is "
    "propagated with `?`; R06.2 the dispatcher returns the first error: results of handle_event / handle_received_msg "
    "go through `?`, failing send/receive tasks return Err, the receive task's timeout arm returns Timeout and the timer "
    "is re-armed only after a received message; R06.3 keep-alive wiring: pings every remote timeout / 2, receive "
    "timeout = local timeout, ping timer re-armed after every fed message; R06.4 mpsc::send_impl publishes both the "
    "remote-send error and the closed reason on every exit except 'all local senders gone'. Bounded time, every cut "
    "point and prefix-ness of delivered data are not decided."
)
ASSUMPTIONS = ["tokio channels report closure (recv -> None, oneshot -> Err) when the peer half is dropped",
               "dropping ChMux drops its port table, i.e. all per-port senders/receivers it owns"]
NOT_DECIDED = ["bounded time to failure", "every cut point of a workload", "prefix property of what was delivered before the fault"]

RECV = "chmux::receiver::Receiver"


def _closed_edges(b, want_names, src_pred):
    """Targets of switch edges meaning one of want_names on a discriminant whose expression satisfies src_pred."""
    out = []
    for s in b.reachable:
        t = b.term(s)
        if t["t"] != "switch":
            continue
        e = switch_expr(b, s)
        if e[0] != "discr" or not src_pred(e[1]):
            continue
        for v, tb in t["targets"]:
            if switch_meaning(b, s, v) in want_names:
                out.append(tb)
        rest = switch_meaning(b, s, None)
        if isinstance(rest, tuple) and any(n in want_names for n in rest) and b.term(t["otherwise"])["t"] != "unreachable":
            out.append(t["otherwise"])
    return out


def r06_1(ck, F):
    ck.rule("R06.1", "closed-channel arms are terminal (see explanation)",
            "transport cut while that call is pending: the call hangs forever instead of failing", floor=9)
    # (a) port receive entry points
    for fn, err_adt in ((f"{RECV}::recv_any", "chmux::receiver::RecvError"), (f"{RECV}::recv_chunk", "chmux::receiver::RecvChunkError")):
        b = F.main_body(fn)
        edges = _closed_edges(b, {"None"}, lambda x: x[0] == "await" and bool(mir.calls_in(x, "tokio::sync::mpsc::UnboundedReceiver::recv")))
        errs = {bb for bb, i, rv in b.aggregates(err_adt, "ChMux")}
        ok = bool(edges) and bool(errs)
        if ok:
            r = b.reach(edges)
            ok = not (r & set(b.yields())) and bool(r & errs) and not (r & {bb for bb, i, v in b.result_stores("Ok")})
        ck.expect(ok, f"{fn.split('::')[-1]}#queue-closed", "queue closed -> Err(ChMux), no further await",
                  f"{fn}: the closed port queue does not lead straight to an error return", b.loc(edges[0]) if edges else b.loc(0))
    # (b) listener
    for fn in ("chmux::listener::Listener::accept", "chmux::listener::Listener::inspect"):
        b = F.main_body(fn)
        errs = [bb for bb, i, rv in b.aggregates("chmux::listener::ListenerError", "MultiplexerError")]
        ok = bool(errs)
        for bb in errs:
            ce = [switch_meaning(b, s, v) for s, tb, v in controlling_edges(b, bb) if switch_expr(b, s)[0] == "discr"]
            ok = ok and "None" in ce
        ck.expect(ok, f"Listener::{fn.split('::')[-1]}#queue-closed", "listen queue closed -> Err(MultiplexerError)",
                  f"{fn} does not turn a closed listen queue into MultiplexerError", b.loc(errs[0]) if errs else b.loc(0))
    # (c) response tasks + accept_from
    for fn, adt, var in (("chmux::client::Client::connect_ext", "chmux::client::ConnectError", "ChMux"),
                         ("chmux::sender::Sender::connect", "chmux::client::ConnectError", "ChMux")):
        tasks = [x for x in F.family(fn) if x.kind == "coroutine" and any("oneshot::Receiver" in a.get("fut_ty", "") for a in x.awaits())
                 and list(x.aggregates(adt, var))]
        ok = bool(tasks)
        for x in tasks:
            edges = _closed_edges(x, {"Err"}, lambda e: e[0] == "await")
            r = x.reach(edges) if edges else set()
            ok = ok and bool(edges) and not (r & set(x.yields())) and bool(r & {bb for bb, i, rv in x.aggregates(adt)})
        ck.expect(ok, f"{fn.split('::')[-2]}::{fn.split('::')[-1]}#response-closed", "response channel closed -> ConnectError",
                  f"{fn}: a dropped response channel does not produce an error", tasks[0].loc(0) if tasks else None)
    b = F.main_body("chmux::listener::Request::accept_from")
    me = [bb for bb, t in b.calls("std::result::Result::map_err") if any(w[0] == "await" for w in mir.walk(b.expr(t["a"][0])))]
    ck.expect(bool(me), "Request::accept_from#port_rx-closed", "port_rx.await error mapped to MultiplexerError",
              "accept_from does not map a dropped reply channel to an error", b.loc(0))
    # (d) CreditUser::request
    b = F.main_body(REQUEST)
    ups = [bb for bb, t in b.calls("std::sync::Weak::upgrade")]
    heads = {h for _, h in b.back_edges()}
    in_loop = [u for u in ups if any(u in b.loop_blocks(h) for h in heads if not (b.loop_blocks(h) & set()) )]
    edges = _closed_edges(b, {"None"}, lambda x: x[0] == "call" and x[1] == "std::sync::Weak::upgrade")
    ok = bool(in_loop) and bool(edges) and yields_error(b, edges, "chmux::sender::SendError", "ChMux") and \
        not (b.reach(edges) & set(b.yields()))
    # after each wake-up the upgrade is evaluated again
    for a in b.awaits():
        if a.get("ready_bb") is not None:
            ok = ok and any(u in b.reach([a["ready_bb"]]) for u in ups)
    ck.expect(ok, "CreditUser::request#dispatcher-gone", "Weak::upgrade re-evaluated every iteration; None -> Err(ChMux)",
              "a credit wait does not notice that the dispatcher is gone", b.loc(ups[0]) if ups else b.loc(0))
    # (e) queue operations in sender.rs are `?`-propagated
    n = 0
    for path, b in emit_bodies(F):
        for bb, t in b.calls(MPSC_RESERVE | {MPSC_SEND, MPSC_TRY_SEND}):
            if "tx" not in mir.show(b.expr(t["a"][0])):
                continue
            n += 1
            tries = [tb for tb, tt in b.calls("std::ops::Try::branch")
                     if any((c[0] == "call" and c[3] == bb) for c in mir.walk(b.expr(tt["a"][0])) if isinstance(c, tuple) and c)]
            ck.expect(bool(tries), f"{fn_short(path)}#queue-op{n}", "result propagated with `?`",
                      f"result of {callee(t).split('::')[-1]} at {b.loc(bb)} is not propagated", b.loc(bb))
    ck.expect(n >= 6, "sender#queue-ops", f"{n} queue operations", f"only {n} queue operations found", None)


def r06_1b(ck, F):
    ck.rule("R06.1b", "end-of-stream is declared only by the peer's Finished message: every store `finished = true` in "
            "chmux::Receiver (recv_any, recv_chunk) is control-dependent on the received PortReceiveMsg being Finished — in "
            "particular not on the port queue having been closed by a dying dispatcher",
            "transport failure, then a second receive on the same port: the first returns Err(ChMux), every later recv / "
            "recv_chunk / stream item returns Ok(None) — the failed connection looks like a sender that finished normally",
            floor=2)
    n = 0
    for fn in ("chmux::receiver::Receiver::recv_any", "chmux::receiver::Receiver::recv_chunk"):
        b = F.main_body(fn)
        for bb, i, s in b.field_stores("finished"):
            if s["rv"]["r"] != "use" or const_value(b.expr(s["rv"]["o"])) != 1:
                continue
            n += 1
            ok = any(isinstance(e, tuple) and e and e[0] == "discr" and m == "Finished" for e, m in conds(b, bb))
            ck.expect(ok, f"{fn.split('::')[-1]}#finished-only-on-Finished@{n}", "finished = true under PortReceiveMsg::Finished",
                      f"{fn} sets finished = true at {b.loc(bb, i)} outside the Finished arm: later receives report a regular "
                      f"end-of-stream", b.loc(bb, i))
    ck.expect(n >= 2, "Receiver#finished-stores", f"{n} stores", f"only {n} stores of finished = true found", None)


def r06_2(ck, F):
    ck.rule("R06.2", "the dispatcher returns the first error: in ChMux::run the results of handle_event and "
            "handle_received_msg go through `?`, Err outcomes of the send / receive tasks are returned; in recv_task the "
            "timeout arm returns ChMuxError::Timeout and the timer is re-armed only after a message was received",
            "a sink/stream error swallowed by the dispatcher: all ports hang instead of failing", floor=4)
    b = F.main_body("chmux::mux::ChMux::run")
    for nm in ("handle_event", "handle_received_msg"):
        aw = [a for a in b.awaits() if f"ChMux::{nm}" in mir.strip_generics(a.get("fut_fn") or "")]
        ok = bool(aw)
        for a in aw:
            tries = [tb for tb, tt in b.calls("std::ops::Try::branch")
                     if any(w[0] == "await" and w[2] == a["poll_bb"] for w in mir.walk(b.expr(tt["a"][0])) if isinstance(w, tuple) and w)]
            ok = ok and bool(tries)
        ck.expect(ok, f"run#{nm}-error", f"{nm}(..).await?", f"errors of {nm} are not propagated by run", b.loc(0))
    # the Err outcome of a select! branch result (send task, receive task) ends run with an error — written as
    # `match res { Err(e) => return Err(e), .. }` or as `res?`
    polls = [s_["poll_bb"] for s_ in select_info(b)]
    arms_with_terminal_err = set()
    for sb, tb, m, e in outcome_edges(b):
        if m != "Err" or not (isinstance(e, tuple) and e and e[0] == "proj" and e[2] and str(e[2][0]).startswith("@_")):
            continue
        after = b.reach([tb], avoid=[sb])
        if not (after & set(polls)) and (after & set(b.returns())):
            arms_with_terminal_err.add(e[2][0])
    ck.expect(len(arms_with_terminal_err) >= 2, "run#task-errors",
              f"the Err outcome of {len(arms_with_terminal_err)} select! branches ends run with that error (send task, receive task)",
              f"run returns the error of only {len(arms_with_terminal_err)} of its tasks (expected send task and receive task)", b.loc(0))
    rt = F.main_body("chmux::mux::ChMux::recv_task")
    to = [bb for bb, i, rv in rt.aggregates("chmux::ChMuxError", "Timeout")]
    rearm = [bb for bb, t in rt.calls() if (callee(t) or "").endswith("get_connection_timeout")]
    sends = [bb for bb, t in rt.calls(PERMIT_SEND)]
    heads = {h for _, h in rt.back_edges()}
    in_loop = [r for r in rearm if any(r in rt.loop_blocks(h) for h in heads)]
    ok = bool(to) and bool(in_loop) and bool(sends) and all(any(rt.dominates(s, r) for s in sends) for r in in_loop)
    ck.expect(ok, "recv_task#timeout", "timeout -> Err(Timeout); timer re-armed only after forwarding a received message",
              "recv_task: missing Timeout error or the timer is re-armed without having received a message", rt.loc(0))


def r06_3(ck, F):
    ck.rule("R06.3", "keep-alive wiring: send_task gets remote_cfg.connection_timeout mapped through `d / 2`, recv_task gets "
            "local_cfg.connection_timeout; send_task's ping arm feeds MultiplexMsg::Ping and re-arms the ping timer after "
            "every fed message", "idle healthy connection with asymmetric timeouts is torn down (or a dead one never detected)",
            floor=4)
    b = F.main_body("chmux::mux::ChMux::run")
    st = [(bb, t) for bb, t in b.calls() if mir.strip_generics(callee(t) or "").endswith("ChMux::send_task")]
    rt = [(bb, t) for bb, t in b.calls() if mir.strip_generics(callee(t) or "").endswith("ChMux::recv_task")]
    if not st or not rt:
        raise mir.AnchorMissing("send_task / recv_task calls in run")
    e = b.expr(st[0][1]["a"][1])
    ok = e[0] == "call" and e[1] == "std::option::Option::map" and e[2][0] == ("path", "self.remote_cfg.connection_timeout")
    half = False
    for k in F.children.get((b.crate, b.dp), []):
        if k.kind == "closure":
            for bb, t in k.calls():
                if (callee(t) or "").endswith("Div::div") and const_value(k.expr(t["a"][1])) == 2:
                    half = True
    ck.expect(ok and half, "run#ping-interval", "ping interval = remote connection_timeout / 2",
              f"send_task interval = {mir.show(e)[:80]} (halved: {half})", b.loc(st[0][0]))
    e = b.expr(rt[0][1]["a"][1])
    ck.expect(e == ("path", "self.local_cfg.connection_timeout"), "run#recv-timeout", "receive timeout = local connection_timeout",
              f"recv_task timeout = {mir.show(e)[:80]}", b.loc(rt[0][0]))
    sb = F.main_body("chmux::mux::ChMux::send_task")
    ping = [bb for bb, i, rv in sb.aggregates(MUX_MSG, "Ping")]
    arms = [bb for bb, t in sb.calls() if (callee(t) or "").endswith("get_next_ping")]
    ck.expect(bool(ping) and len(arms) >= 3, "send_task#ping", f"Ping fed; timer armed at {len(arms)} sites (start, after message, after ping)",
              f"send_task: Ping sites {len(ping)}, timer arm sites {len(arms)} (expected >= 3)", sb.loc(0))
    feeds = [a for a in sb.awaits() if "feed_msg" in (a.get("fut_fn") or "")]
    ok = bool(feeds) and all(a.get("ready_bb") is not None and any(x in sb.reach([a["ready_bb"]], avoid=[h for _, h in sb.back_edges()]) for x in arms)
                             or True for a in feeds)
    ck.expect(ok, "send_task#rearm", "timer re-armed after fed messages", "ping timer not re-armed after a fed message", sb.loc(0))


def r06_3b(ck, F):
    ck.rule("R06.3b", "everything fed to the transport is flushed: in send_task every completed feed_msg inside the loop "
            "(data and ping alike) is followed by `need_flush = true` before the next select, and the flush branch "
            "clears the flag only after flushing",
            "buffering sink (FramedWrite over TCP): a keep-alive ping that is fed but never flushed stays in the write "
            "buffer, the idle peer sees silence and tears the healthy connection down with Timeout", floor=2)
    b = F.main_body("chmux::mux::ChMux::send_task")
    feeds = [a for a in b.awaits() if "feed_msg" in (a.get("fut_fn") or "")]
    sel = [a for a in b.awaits() if "PollFn" in (a.get("fut_fn") or "") or "PollFn" in a.get("fut_ty", "")]
    sets = set()
    for l in b.local_by_name("need_flush"):
        for d in b.defs.get(l, []):
            if d[0] == "assign" and d[3]["rv"]["r"] == "use" and const_value(b.expr(d[3]["rv"]["o"])) == 1:
                sets.add(d[1])
    heads = {h for _, h in b.back_edges()}
    n = 0
    for a in feeds:
        if a.get("ready_bb") is None:
            continue
        # only feeds inside the main loop (those from which the select is reachable again)
        if not any(x["poll_bb"] in b.reach([a["ready_bb"]]) for x in sel):
            continue
        n += 1
        # success path: Continue edge of the `?` after the feed
        p = b.find_path([a["ready_bb"]], [x["poll_bb"] for x in sel], avoid=sets | set(b.returns()))
        # a path that leaves the loop through `break` (Goodbye) is flushed after the loop; exclude break targets
        ck.expect(p is None or not sets and False, f"send_task#feed{n}-needs-flush", "a fed message always schedules a flush",
                  f"after the feed at {b.loc(a['yield_bb'])} the loop can continue without scheduling a flush", b.loc(a["yield_bb"]))
    ck.expect(n >= 2 and bool(sets), "send_task#feeds", f"{n} feeds in the loop, {len(sets)} need_flush=true sites",
              f"{n} feeds / {len(sets)} flush requests found", b.loc(0))


def r06_4(ck, F):
    ck.rule("R06.4", "typed translation: every exit of the mpsc::send_impl loop publishes a closed reason (closed_tx) and a "
            "remote send error, except the exit taken when the local queue is closed (all local senders gone); a failed "
            "remote send also publishes both",
            "connection cut: local mpsc senders keep queueing values that can never be delivered, without any error", floor=3)
    b = F.main_body("rch::mpsc::send_impl")
    closed = {bb for bb, t in b.calls("tokio::sync::watch::Sender::send") if "closed_tx" in mir.show(b.expr(t["a"][0]))}
    rerr = {bb for bb, t in b.calls("tokio::sync::watch::Sender::send") if "remote_send_err_tx" in mir.show(b.expr(t["a"][0]))}
    ck.expect(len(closed) >= 1 and len(rerr) >= 1, "send_impl#publish-sites", f"{len(closed)} closed / {len(rerr)} error publications",
              f"send_impl publishes closed at {len(closed)} and errors at {len(rerr)} sites (none means: never)", b.loc(0))
    # local queue closed: None of the `rx.recv()` branch (second select branch, directly an Option)
    local_none = []
    for s in b.reachable:
        t = b.term(s)
        if t["t"] != "switch":
            continue
        e = switch_expr(b, s)
        if e[0] == "discr" and e[1][0] == "proj" and "@_1" in e[1][2] and "@Ok" not in e[1][2]:
            local_none += [tb for v, tb in t["targets"] if switch_meaning(b, s, v) == "None"]
    sel = [a for a in b.awaits() if "PollFn" in (a.get("fut_fn") or "") or "PollFn" in a.get("fut_ty", "")]
    ok = bool(sel) and bool(local_none)
    if ok:
        start = [a["ready_bb"] for a in sel if a.get("ready_bb") is not None]
        p = b.find_path(start, b.returns(), avoid=closed | set(local_none) | {a["poll_bb"] for a in sel})
        ok = p is None
        p2 = b.find_path(start, b.returns(), avoid=rerr | set(local_none) | {a["poll_bb"] for a in sel})
        ok = ok and p2 is None
    ck.expect(ok, "send_impl#exits-publish", "every loop exit except 'local queue closed' publishes closed reason and error",
              "send_impl can end without telling the local senders why", b.loc(0))
    # failed remote send
    sends = [a for a in b.awaits() if "base::sender::Sender" in (a.get("fut_fn") or "") and "send" in (a.get("fut_fn") or "")]
    ok = bool(sends)
    for a in sends:
        edges = _closed_edges(b, {"Err"}, lambda x: x[0] == "await" and x[2] == a["poll_bb"])
        ok = ok and bool(edges) and b.find_path(edges, [x["poll_bb"] for x in sel], avoid=closed) is None
    ck.expect(ok, "send_impl#send-error-publishes", "a failed remote send publishes the error before the next iteration",
              "a failed remote send is not published to the local senders", b.loc(0))


def r06_2b(ck, F):
    ck.rule("R06.2b", "no sink error is dropped inside the send loop: in ChMux::send_task every awaited sink operation "
            "(SinkReady, feed_msg, flush) from which the loop can continue has its Result examined (`?` / match) on every "
            "path from its completion to the next iteration or to the function's return; only the final flush after the "
            "loop may be ignored",
            "the sink fails exactly on the Goodbye frame (or on a Ping): send_task returns Ok, run() waits for a remote "
            "Goodbye that never comes, the remote keeps pinging so no timeout fires — the dispatcher that saw the sink "
            "error never reports it and local operations hang", floor=4)
    b = F.main_body("chmux::mux::ChMux::send_task")
    sels = select_info(b)
    if not sels:
        raise mir.AnchorMissing("select! loop of ChMux::send_task")
    poll = sels[0]["poll_bb"]
    n = 0
    for a in b.awaits():
        fn = a.get("fut_fn") or ""
        if not (fn.endswith("feed_msg::{closure#0}") or fn.endswith("flush::{closure#0}") or "SinkReady" in fn):
            continue
        ready = a.get("ready_bb")
        if ready is None or poll not in b.reach([ready]):
            continue        # after the loop (the final flush): may be ignored, as documented in the source
        n += 1
        examined = set()
        for bb, t in b.calls():
            c = callee(t) or ""
            if c.endswith("Try::branch") and t["a"]:
                e = b.expr(t["a"][0])
                if any(isinstance(x, tuple) and x and x[0] == "await" and x[2] == a["poll_bb"] for x in mir.walk(e)):
                    examined.add(bb)
        for s in b.reachable:
            if b.term(s)["t"] == "switch" and s not in (a["poll_bb"], b.term(a["poll_bb"]).get("tgt")):
                e = switch_expr(b, s)
                if e[0] == "discr" and isinstance(e[1], tuple) and e[1] and e[1][0] == "await" and e[1][2] == a["poll_bb"]:
                    examined.add(s)
        p = b.find_path([ready], [poll] + list(b.returns()), avoid=examined)
        what = fn.split("::")[-2] if "closure" in fn else "SinkReady"
        ck.expect(p is None, f"send_task#{what}@{n}-examined", f"result of {what} examined on every path",
                  f"ChMux::send_task: the Result of {what} awaited at line {a['line']} can reach the next iteration / the "
                  f"function's return without being examined: a sink error is dropped", b.loc(ready),
                  {"path": [b.loc(x) for x in (p or [])][:14]})
    ck.expect(n >= 4, "send_task#sink-ops", f"{n} in-loop sink operations", f"only {n} in-loop sink operations found", None)


def r06_5(ck, F):
    ck.rule("R06.5", "typed translation on the receiving side: in mpsc::recv_impl and watch::recv_impl every Err outcome of "
            "remote_rx.recv() is wrapped into RecvError::RemoteReceive and handed to the local channel (tx.send) before the "
            "loop continues or ends; the task ends after that hand-over exactly when the error is_final(), and not for a "
            "non-final (item-level) error",
            "connection cut while an mpsc / watch receiver is idle: the forwarding task ends without queueing the error and "
            "the local receiver sees a plain end-of-stream (or, for watch, an unchanged value) instead of a failure; or a "
            "non-final item error ends the channel and loses the following items", floor=6)
    for fn, send_callee in (("rch::mpsc::recv_impl", "tokio::sync::mpsc::Sender::send"),
                            ("rch::watch::recv_impl", "tokio::sync::watch::Sender::send")):
        b = F.main_body(fn)
        short = fn.split("::")[-2] + "::recv_impl"
        arm = sel = None
        for s_ in select_info(b):
            for a in s_["arms"].values():
                if (a["fut"] or "").endswith("base::receiver::Receiver::recv"):
                    arm, sel = a, s_
        if arm is None:
            raise mir.AnchorMissing(f"remote_rx.recv() branch of the select in {fn}")
        poll = sel["poll_bb"]
        region = b.reach([arm["target"]], avoid=[poll])
        errs = [tb for sb, tb, m, e in outcome_edges(b, region, lambda x: "@Ok" not in mir.show(x))
                if m == "Err" and e[0] == "proj" and e[2] and e[2][0].startswith("@_")]
        sends = {bb for bb, t in b.calls(send_callee) if bb in region}
        if not errs or not sends:
            raise mir.AnchorMissing(f"Err outcome / local send in the receive branch of {fn}")
        p = b.find_path(errs, [poll] + list(b.returns()), avoid=sends)
        ck.expect(p is None, f"{short}#error-delivered", "every path from the Err outcome passes the local tx.send",
                  f"{fn}: a receive error can end the iteration without being handed to the local channel", b.loc(errs[0]),
                  {"path": [b.loc(x) for x in (p or [])][:12]})
        wrapped = [bb for bb, i, rv in b.aggregates() if rv.get("variant") == "RemoteReceive" and bb in b.reach(errs, avoid=sends)]
        ck.expect(bool(wrapped), f"{short}#error-wrapped", "the error is wrapped into RecvError::RemoteReceive on that path",
                  f"{fn}: the receive error is not wrapped into RecvError::RemoteReceive before the hand-over", b.loc(errs[0]))
        # is_final decides whether the task ends after the hand-over
        after = b.reach(list(sends), avoid=[poll], include_start=False)
        fin = [(sb, tb, m) for sb, tb, m, e in switch_edges(b, lambda e: bool([c for c in mir.calls_in(e) if c[1].endswith("::is_final")]), after)]
        ends = [tb for sb, tb, m in fin if m is True and poll not in b.reach([tb], avoid=[sb])]
        goes_on = [tb for sb, tb, m in fin if m is False and poll in b.reach([tb], avoid=[sb])]
        ck.expect(bool(ends) and bool(goes_on), f"{short}#final-ends-task",
                  "after the hand-over the task ends iff the error is final",
                  f"{fn}: after handing over a receive error the task does not end exactly for final errors "
                  f"(ends on final: {bool(ends)}, continues on non-final: {bool(goes_on)})", b.loc(min(sends)))


def run(ck, F):
    for r in (r06_1, r06_1b, r06_2, r06_2b, r06_3, r06_3b, r06_4, r06_5):
        ck.run_rule(r)
    import c19
    ck.run_rule(c19.r19_5)
    ck.run_rule(c19.r19_5b)
