"""C10 — every port-open request resolves exactly once and pairs the right ports."""
import mir
from mir import callee
from common import *  # noqa: F401,F403
from robs_common import event_arms
import c05  # noqa: F401  (R05.1 pairing rules are also C10 clauses)

EXPLANATION = (
    "Static rules for the open-request protocol: R10.1 the resolution is a linear token (oneshot sender of "
    "ConnectResponse in PortState::Connecting and ConnectRequest; Request::accept/accept_from/reject consume self; "
    "Request is not Clone); R10.2 no suspension point between the completed enqueue of Accepted/Rejected and marking the "
    "request done, and the drop task rejects only when the request was not marked done (no double answer); R10.3 the "
    "client's request credits are sized by the peer's connect_queue, the credit is moved into the response task, the "
    "non-waiting path reports TooManyPendingConnectionRequests; R10.4 both listener queues hold connect_queue + 1 and "
    "overflow is a protocol error; R10.5 the `sent` notification is released only after the OpenPort frame was handed to "
    "the transport queue; R10.6 both translations of ConnectResponse map no_ports -> RemotePortsExhausted, otherwise "
    "Rejected, closed -> ChMux; plus the id pairing rules R05.1 and the port-number rules R07.3. Pairing under concurrent "
    "interleavings as observed by labels and exhaustion timing are not decided."
)
ASSUMPTIONS = ["tokio oneshot: send consumes the sender, the receiver errors when the sender is dropped unsent",
               "tokio Semaphore permits are returned on drop"]
NOT_DECIDED = ["pairing under concurrent interleavings observed through labels", "timing of the exhaustion policies"]

REQ = "chmux::listener::Request"


def r10_1(ck, F):
    ck.rule("R10.1", "linear resolution token: response_tx fields are oneshot::Sender<ConnectResponse>; "
            "Request::{accept, accept_from, reject} take self by value; Request is not Clone",
            "a request answered twice / never", floor=6)
    for adt, var in (("chmux::mux::PortState", "Connecting"), ("chmux::client::ConnectRequest", None)):
        ty = F.adt_fields(adt, var)["response_tx"]["ty"]
        ck.expect(ty == "tokio::sync::oneshot::Sender<chmux::client::ConnectResponse>", f"{adt.split('::')[-1]}.response_tx",
                  "oneshot sender", f"{adt}.response_tx: {ty}", None)
    for m in ("accept", "accept_from", "reject"):
        f = F.fn(f"{REQ}::{m}")
        ck.expect(f["inputs"][0] == REQ, f"Request::{m}#by-value", "consumes self", f"Request::{m} takes {f['inputs'][0]}",
                  f"{f['file']}:{f['line']}")
    ck.expect(not F.has_impl(REQ, "std::clone::Clone"), "Request#!Clone", "not Clone", "Request implements Clone", None)


def r10_2(ck, F):
    ck.rule("R10.2", "no double answer: in Request::accept_from and reject no Yield lies between the completion of "
            "tx.send(Accepted|Rejected).await and done_tx.send(()); the drop task of Request::new enqueues Rejected only "
            "on the Err outcome of done_rx.await",
            "accept future cancelled between the two steps: the drop task sends a second Rejected for an accepted "
            "request and the dispatcher panics ('non-outstanding remote port')", floor=3)
    for m in ("accept_from", "reject"):
        b = F.main_body(f"{REQ}::{m}")
        sends = [a for a in b.awaits() if (a.get("fut_fn") or "").startswith("tokio::sync::mpsc::Sender::send")]
        done = [bb for bb, t in b.calls("tokio::sync::oneshot::Sender::send") if "done_tx" in mir.show(b.expr(t["a"][0]))]
        ok = bool(sends) and bool(done)
        if ok:
            for a in sends:
                p = b.find_path([a["ready_bb"]], set(b.yields()) | set(b.returns()), avoid=done)
                ok = ok and p is None
        ck.expect(ok, f"Request::{m}#answer-then-done", "done is signalled right after the answer was queued, without suspension",
                  f"Request::{m}: a Yield/Return can occur after the answer was queued and before done_tx.send(())", b.loc(0))
    fam = F.family(f"{REQ}::new")
    task = [x for x in fam if x.kind == "coroutine" and list(x.aggregates(PORT_EVT, "Rejected"))]
    if not task:
        raise mir.AnchorMissing("drop task of Request::new")
    x = task[0]
    bb = [bb for bb, i, rv in x.aggregates(PORT_EVT, "Rejected")][0]
    ce = conds(x, bb)
    ok = any(e[0] == "call" and e[1] == "std::result::Result::is_err" and m is True and
             any(w[0] == "await" for w in mir.walk(e)) for e, m in ce)
    ck.expect(ok, "Request::new#reject-only-if-not-done", "Rejected only when done_rx.await is Err",
              "the drop task can reject a request that was already answered", x.loc(bb))


def r10_3(ck, F):
    ck.rule("R10.3", "request credits: Client::new is given remote_cfg.connect_queue; connect_ext moves the credit into "
            "the spawned response task (held until the response arrives); without `wait` a missing credit returns "
            "TooManyPendingConnectionRequests",
            "more unanswered requests than the peer's queue holds: the peer reports a protocol error and the connection dies",
            floor=3)
    nb = F.main_body("chmux::mux::ChMux::new")
    cs = list(nb.calls("chmux::client::Client::new"))
    if not cs:
        raise mir.AnchorMissing("Client::new call in ChMux::new")
    e = mir.strip_casts(nb.expr(cs[0][1]["a"][1]))
    ck.expect(mir.last_field(e) == "connect_queue" and bool(mir.calls_in(e, "chmux::mux::ChMux::exchange_hello")), "ChMux::new#client-limit",
              "limit = remote_cfg.connect_queue", f"Client limit = {mir.show(e)}", nb.loc(cs[0][0]))
    cn = F.body("chmux::client::ConnectRequestCrediter::new")
    se = [t for bb, t in cn.calls("tokio::sync::Semaphore::new")]
    ck.expect(bool(se) and "limit" in mir.show(cn.expr(se[0]["a"][0])), "ConnectRequestCrediter::new", "semaphore sized by limit",
              "semaphore not sized by the limit", cn.loc(0))
    b = F.main_body("chmux::client::Client::connect_ext")
    kids = [k for k in F.children.get((b.crate, b.dp), []) if k.kind == "coroutine"]
    resp = [k for k in kids if any("oneshot::Receiver" in a.get("fut_ty", "") for a in k.awaits())]
    ok = bool(resp) and "credit" in resp[0].upvars
    if ok:
        k = resp[0]
        # the credit local inside the task is not dropped before the response await completed
        cl = [l for l in k.local_by_name("_credit")] + [l for l in k.local_by_name("credit")]
        drops = sorted(set().union(*[k.moves_of(l) for l in cl])) if cl else []
        # the initial move of the captured credit into its binding is not a release
        binds = {bb for l in cl for d in k.defs.get(l, []) if d[0] == "assign" for bb in [d[1]]}
        drops = [d for d in drops if k.term(d)["t"] == "drop" or d not in binds or
                 (k.term(d)["t"] == "call" and any(a == ["m", [l]] for l in cl for a in k.term(d)["a"]))]
        aw = [a for a in k.awaits() if "oneshot::Receiver" in a.get("fut_ty", "")]
        ok = all(k.find_path([0], [d], avoid=[a["ready_bb"] for a in aw]) is None for d in drops) and bool(drops)
    ck.expect(ok, "connect_ext#credit-held", "credit captured by the response task and dropped only after the response",
              "the connect-request credit is released before the response arrives", b.loc(0))
    TR = "chmux::client::ConnectRequestCrediter::try_request"
    ok = False
    for sb, tb, m, e in outcome_edges(b, None, lambda x: bool(mir.calls_in(x, TR))):
        if m == "None":
            # match arm, or `try_request().ok_or(TooMany..)?`: the None outcome leaves with that error and cannot go on
            ok = ok or (yields_error(b, [tb], "chmux::client::ConnectError", "TooManyPendingConnectionRequests", avoid=[sb]) and
                        not (b.reach([tb], avoid=[sb]) & {x for x, i2, v2 in b.result_stores("Ok")}))
    ck.expect(ok, "connect_ext#too-many", "None from try_request -> TooManyPendingConnectionRequests",
              "missing credit without wait does not produce TooManyPendingConnectionRequests", b.loc(0))


def r10_7(ck, F):
    ck.rule("R10.7", "every accepted OpenPort frame gets a Request: in the OpenPort arm of handle_received_msg Request::new "
            "(which also arms the drop watcher that answers Rejected) lies on every path to Ok — also when no listener "
            "exists any more",
            "listener dropped, then a connect that was already on the wire arrives: nobody answers, the client's Connect "
            "never resolves and the outstanding entry keeps the dispatcher from terminating", floor=1)
    hr = F.main_body(HANDLE_RECEIVED)
    arms, sw, _ = event_arms(hr, MUX_MSG)
    s_, tb, region = arms["OpenPort"]
    reqs = {bb for bb, t in hr.calls("chmux::listener::Request::new") if bb in region}
    oks = [bb for bb, i, v in hr.result_stores("Ok")]
    p = hr.find_path([tb], oks, avoid=reqs)
    ck.expect(bool(reqs) and p is None, "handle_received_msg#OpenPort-always-request", "a Request is created on every accepting path",
              "an OpenPort frame can be accepted without creating a Request (no one will answer it)", hr.loc(tb))


def _field_reads(F, field, exclude_file_suffix):
    """(body, bb) of reads of a struct field named `field` (as operand / borrowed place), outside the given file."""
    out = []
    tag = ":" + field
    for b in F.by_dp.values():
        if b.crate != "remoc" or b.file.endswith(exclude_file_suffix):
            continue
        for bb, blk in enumerate(b.blocks):
            if blk.get("cleanup"):
                continue
            for st in blk["s"]:
                if st["k"] != "assign":
                    continue
                rv = st["rv"]
                places = []
                for key in ("o", "a", "b"):
                    o = rv.get(key)
                    if o and o[0] != "k":
                        places.append(o[1])
                for o in rv.get("ops", []):
                    if o[0] != "k":
                        places.append(o[1])
                if rv["r"] in ("ref", "discr", "rawptr"):
                    places.append(rv["p"])
                if any(isinstance(x, str) and x.endswith(tag) for p in places for x in p[1:]):
                    out.append((b, bb))
            t = blk["t"]
            for a in t.get("a", []):
                if a[0] != "k" and any(isinstance(x, str) and x.endswith(tag) for x in a[1][1:]):
                    out.append((b, bb))
    return out


def r10_8(ck, F):
    ck.rule("R10.8", "the configured exhaustion policy has an effect: every connect-related option of Cfg "
            "(ports_exhausted, connect_queue, max_ports) is read somewhere outside chmux/cfg.rs",
            "Cfg::ports_exhausted = Fail (or Wait with a time limit) configured, ports exhausted, Client::connect(): the "
            "request waits without limit instead of being refused with LocalPortsExhausted", floor=3)
    fields = F.adt_fields("chmux::cfg::Cfg")
    for fld in ("ports_exhausted", "connect_queue", "max_ports"):
        if fld not in fields:
            raise mir.AnchorMissing(f"Cfg.{fld}")
        reads = _field_reads(F, fld, "chmux/cfg.rs")
        ck.expect(bool(reads), f"Cfg_{fld}-used", f"read at {len(reads)} site(s), e.g. {reads[0][0].loc(reads[0][1]) if reads else ''}",
                  f"Cfg::{fld} is documented as configuring connect behaviour but is never read by the library: the "
                  f"option has no effect", None, {"field": fld})


def r10_5(ck, F):
    ck.rule("R10.5", "`sent` notification: in handle_event(ConnectReq) the binding that owns sent_tx is dropped only after "
            "Permit::send(OpenPort) on the accepting path",
            "Connect::sent() returns before the request is queued: data sent afterwards can overtake the OpenPort frame",
            floor=1)
    b = F.main_body(HANDLE_EVENT)
    loc = b.local_by_name("_sent_tx")
    if not loc:
        raise mir.AnchorMissing("binding _sent_tx in handle_event")
    drops = sorted(b.moves_of(loc[0]))
    ins = [bb for bb, t in b.calls("std::collections::HashMap::insert")
           if any(x[0] == "agg" and x[2] == "Connecting" for x in mir.walk(b.expr(t["a"][2])))]
    opens = [bb for bb, i, rv in b.aggregates(MUX_MSG, "OpenPort")]
    fam = F.family(HANDLE_EVENT)
    closure_sends = {x.dp for x in fam if x.kind == "closure" and list(x.calls(PERMIT_SEND))}
    send_calls = set()
    for bb, t in b.calls():
        if callee(t) in ("std::ops::Fn::call", "std::ops::FnMut::call_mut", "std::ops::FnOnce::call_once"):
            for o in b.origins(t["a"][0]):
                if o.kind == "agg" and o.detail[2] == "closure" and b.stmts(o.detail[0])[o.detail[1]]["rv"].get("dp") in closure_sends:
                    if any(op in b.reach([op_]) for op_ in opens for op in [bb]):
                        send_calls.add(bb)
    # the same wrapper written as a (nested) fn, or Permit::send called directly / spliced in
    wrappers = {k for k, x in F.bodies.items() if x.crate == "remoc" and x.file.endswith("chmux/mux.rs") and list(x.calls(PERMIT_SEND))}
    for bb, t in b.calls():
        c = callee(t) or ""
        if c in PERMIT_SEND or any(mir.strip_generics(w) == c or w == c for w in wrappers):
            send_calls.add(bb)
    send_calls = {s for s in send_calls if any(s in b.reach([o]) for o in opens)}
    ok = bool(drops) and bool(ins) and bool(send_calls)
    if ok:
        # accepting path: from the Connecting insert; the drop must not be reachable without the send
        cand = ins[:1]
        for i0 in ins:
            if any(o in b.reach([i0]) for o in opens) and any(b.dominates(i0, o) for o in opens):
                cand = [i0]
        p = b.find_path(cand, drops, avoid=send_calls)
        ok = p is None
    ck.expect(ok, "handle_event#sent_tx-after-send", "sent_tx is dropped after the OpenPort frame was queued",
              "sent_tx can be dropped (sent() returns) before OpenPort is handed to the transport queue", b.loc(drops[0]) if drops else b.loc(0))


def r10_6(ck, F):
    ck.rule("R10.6", "reason mapping agrees at both translation sites of ConnectResponse (client.rs connect_ext task, "
            "sender.rs connect task): Rejected{no_ports: true} -> RemotePortsExhausted, false -> Rejected, channel "
            "closed -> ChMux (Rejected when the listener was dropped, client side)",
            "a refused connect reported with the wrong reason on one of the two paths", floor=2)
    tables = {}
    for fn in ("chmux::client::Client::connect_ext", "chmux::sender::Sender::connect"):
        fam = F.family(fn)
        for x in fam:
            if x.kind != "coroutine" or not any("oneshot::Receiver" in a.get("fut_ty", "") for a in x.awaits()):
                continue
            if not list(x.aggregates("chmux::client::ConnectError")):
                continue
            tab = {}
            for bb, i, rv in x.aggregates("chmux::client::ConnectError"):
                ce = conds(x, bb)
                cnd = []
                for e, m in ce:
                    if mir.last_field(e) == "no_ports":
                        cnd.append(f"no_ports={m}")
                    elif e[0] == "discr" and m in ("Rejected", "Err", "Accepted", "Ok"):
                        cnd.append(str(m))
                    elif e[0] == "call" and "load" in e[1]:
                        cnd.append(f"listener_dropped={m}")
                tab.setdefault(rv["variant"], []).extend(sorted(set(cnd)))
            tables[fn.split("::")[-2]] = tab
    ck.expect(len(tables) == 2, "ConnectResponse#translation-sites", "two translation tasks found", f"found {sorted(tables)}", None)
    for who, tab in tables.items():
        ok = "no_ports=True" in tab.get("RemotePortsExhausted", []) and "no_ports=False" in tab.get("Rejected", []) and \
             "Err" in tab.get("ChMux", [])
        ck.expect(ok, f"ConnectResponse#{who}", f"{tab}", f"{who} maps ConnectResponse as {tab}", None)


def run(ck, F):
    import c08
    for r in (r10_1, r10_2, r10_3, r10_5, r10_6, r10_7, r10_8):
        ck.run_rule(r)
    # shared clauses
    ck.run_rule(c08.r08_3)       # R10.4 = listener queue bound
    ck.rule_desc["R08.3"] = "(= R10.4) " + ck.rule_desc.get("R08.3", "")
    import c07
    ck.run_rule(c07.r07_3)
    ck.run_rule(c07.r07_5)       # dropping a request rejects it (the watcher's Rejected waits for a queue slot)
    ck.run_rule(c05.r05_1)
    import c03
    ck.run_rule(c03.r03_4b)      # a request waiting for a local port must be woken by every release
