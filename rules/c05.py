"""C05 — channel halves embedded in values are wired one-to-one to their counterparts."""
import mir
from mir import callee
from common import *  # noqa: F401,F403

EXPLANATION = (
    "Static rules for the port-wiring path of embedded channel halves: R05.1 id pairing is by construction at every hop "
    "(base::Sender::send collects port and callback from the same tuple and re-joins callbacks with the result of "
    "chmux connect by zip; handle_event(SendPorts) pushes port number and id in the same iteration; "
    "handle_received_msg(PortData/OpenPort) zips ports with ids and defaults the id to the port; base::Receiver::recv "
    "looks the callback up by the id of the very request it passes to it; forward re-announces each request under the "
    "id of the request it is zipped with); R05.2 sibling agreement on failure: every callback registered through "
    "PortSerializer::connect / PortDeserializer::accept notifies its own channel on the Err outcome of connect / "
    "accept_from before it returns; R05.3 single-connection channel types check the interlock before registering a "
    "port. The livelock clause R03.2 (two halves with < 8 credits) is checked under C03. That labels arrive at the right "
    "counterpart over 1-3 hops is not decided."
)
ASSUMPTIONS = ["Iterator::zip pairs elements positionally; Vec::push appends",
               "chmux::Sender::connect returns the Connect handles in argument order (checked: one push per argument iteration)"]
NOT_DECIDED = ["end-to-end wiring over several hops as observed by labels", "value shapes / nesting positions"]


def _same_next(b, e1, e2):
    """Do two expressions derive from the same Iterator::next call?"""
    n1 = {c[3] for c in mir.calls_in(e1, "std::iter::Iterator::next")}
    n2 = {c[3] for c in mir.calls_in(e2, "std::iter::Iterator::next")}
    return bool(n1 & n2)


def r05_1(ck, F):
    ck.rule("R05.1", "id pairing by construction at every hop (see explanation)",
            "several halves in one value: a half connected to another half's counterpart", floor=7)
    # (a) base::Sender::send
    b = F.main_body("rch::base::sender::Sender::send")
    pushes = [(bb, t) for bb, t in b.calls("std::vec::Vec::push")]
    pp = [(bb, t) for bb, t in pushes if mir.calls_in(b.expr(t["a"][1]), "chmux::port_allocator::PortReq::new")]
    cp = [(bb, t) for bb, t in pushes if pp and bb != pp[0][0] and _same_next(b, b.expr(pp[0][1]["a"][1]), b.expr(t["a"][1]))]
    ok = len(pp) == 1 and len(cp) == 1
    ports_vec = b.expr(pp[0][1]["a"][0]) if pp else None
    cb_vec = b.expr(cp[0][1]["a"][0]) if cp else None
    uz = [(bb, t) for bb, t in b.calls("std::iter::Iterator::unzip")]
    if not pp and len(uz) == 1:
        # the same pairing written as requests.into_iter().map(|(port, cb)| (PortReq::new(port), cb)).unzip()
        ubb, ut = uz[0]
        ue = b.expr(ut["a"][0])
        clos = [x for x in mir.walk(ue) if isinstance(x, tuple) and x and x[0] == "agg" and x[1] == "closure" and len(x) > 4]
        ok = False
        if ue[0] == "call" and ue[1] == "std::iter::Iterator::map" and clos:
            cbody = F.by_dp.get((b.crate, clos[-1][4]))
            if cbody is not None:
                r = cbody.expr(["c", [0]])
                if r[0] == "agg" and r[1] == "tuple" and len(r[3]) == 2:
                    e0, e1 = r[3][0][1], r[3][1][1]
                    news = mir.calls_in(e0, "chmux::port_allocator::PortReq::new")
                    s0 = mir.show(news[0][2][0]) if news else ""
                    s1 = mir.show(e1)
                    # both components come from the closure's one tuple argument: <arg>.0 -> PortReq::new, <arg>.1 -> callback
                    ok = bool(news) and s0.endswith(".0") and s1.endswith(".1") and s0[:-2] == s1[:-2]
        u = b.expr(["c", ut["d"]]) if ut.get("d") else None
        ports_vec = ("proj", ("call", "std::iter::Iterator::unzip", (), ubb), ("0",))
        cb_vec = ("proj", ("call", "std::iter::Iterator::unzip", (), ubb), ("1",))
    ck.expect(ok, "base::Sender::send#collect", "port and callback collected from the same tuple of the same iteration",
              "ports and callbacks are not collected from the same request tuple", b.loc(pp[0][0]) if pp else b.loc(0))
    cs = [(bb, t) for bb, t in b.calls("chmux::sender::Sender::connect")]
    ck.expect(bool(cs) and ports_vec is not None and mir.same_value(b.expr(cs[0][1]["a"][1]), ports_vec),
              "base::Sender::send#connect-arg", "connect is given the collected ports",
              "connect is not called with the collected ports", b.loc(cs[0][0]) if cs else b.loc(0))
    zips = [(bb, t) for bb, t in b.calls("std::iter::Iterator::zip")]
    ok = False
    for bb, t in zips:
        a0, a1 = b.expr(t["a"][0]), b.expr(t["a"][1])
        in0 = a0[2][0] if a0[0] == "call" and a0[2] else a0
        ok = ok or (cb_vec is not None and mir.same_value(in0, cb_vec) and bool(mir.calls_in(a1, "chmux::sender::Sender::connect")))
    ck.expect(ok, "base::Sender::send#rejoin", "callbacks zipped with the connects returned for `ports`",
              "callbacks are not re-joined positionally with the result of chmux connect", b.loc(zips[0][0]) if zips else b.loc(0))
    # chmux connect keeps argument order: one Connect pushed per iteration over the argument
    c = F.main_body("chmux::sender::Sender::connect")
    cpush = [(bb, t) for bb, t in c.calls("std::vec::Vec::push")
             if any(x[0] == "agg" and x[1] == "chmux::client::Connect" for x in mir.walk(c.expr(t["a"][1])))]
    rpush = [(bb, t) for bb, t in c.calls("std::vec::Vec::push")
             if mir.calls_in(c.expr(t["a"][1]), "std::iter::Iterator::next") and
             any("ports" in p for x in mir.calls_in(c.expr(t["a"][1]), "std::iter::Iterator::next") for p in mir.paths_in(x))]
    ok = len(cpush) == 1 and len(rpush) == 1
    if ok:
        heads = [h for _, h in c.back_edges() if cpush[0][0] in c.loop_blocks(h) and rpush[0][0] in c.loop_blocks(h)]
        ok = bool(heads)
        # the returned vector is the one pushed to
        ret = c.expr(["c", [0]])
        ok = ok and any(mir.same_value(x, c.expr(cpush[0][1]["a"][0])) for x in mir.walk(ret) if isinstance(x, tuple) and x and x[0] == "call")
    ck.expect(ok, "chmux::Sender::connect#order", "one Connect pushed per port in argument order, and that vector is returned",
              "Connect handles are not produced one per port in argument order", c.loc(cpush[0][0]) if cpush else c.loc(0))
    # (b) handle_event(SendPorts)
    he = F.main_body(HANDLE_EVENT)
    hp = [(bb, t, he.expr(t["a"][1])) for bb, t in he.calls("std::vec::Vec::push")]
    pn = [(bb, t, e) for bb, t, e in hp if "port" in mir.field_leaves(e) and mir.calls_in(e, "std::iter::Iterator::next")]
    ids = [(bb, t, e) for bb, t, e in hp if mir.last_field(e) == "id" and mir.calls_in(e, "std::iter::Iterator::next")]
    ok = len(pn) == 1 and len(ids) == 1 and _same_next(he, pn[0][2], ids[0][2])
    ck.expect(ok, "handle_event#SendPorts", "port number and id pushed from the same request",
              "port numbers and ids of a PortData message are not taken from the same request", he.loc(pn[0][0]) if pn else he.loc(0))
    for bb, i, rv in he.aggregates(MUX_MSG, "PortData"):
        e_p = he.expr(rv["ops"][rv["fields"].index("ports")])
        e_i = he.expr(rv["ops"][rv["fields"].index("ids")])
        ok = bool(pn) and bool(ids) and mir.same_value(e_p, he.expr(pn[0][1]["a"][0])) and \
            any(c[1].endswith("then_some") for c in mir.calls_in(e_i))
        ck.expect(ok, "handle_event#PortData-fields", "PortData.ports / ids are the two collected vectors",
                  f"PortData built from ports={mir.show(e_p)[:60]} ids={mir.show(e_i)[:60]}", he.loc(bb, i))
    # (c) handle_received_msg
    hr = F.main_body(HANDLE_RECEIVED)
    fam = F.family(HANDLE_RECEIVED)
    reqs = [(x, bb, t) for x in fam for bb, t in x.calls("chmux::listener::Request::new")]
    n_ok = 0
    from robs_common import event_arms
    hr_arms, _sw, _ = event_arms(hr, MUX_MSG)
    for x, bb, t in reqs:
        e_port, e_id = x.expr(t["a"][0]), x.expr(t["a"][1])
        if x is hr and bb in hr_arms["OpenPort"][2]:
            ok = (e_id[0] == "call" and e_id[1] == "std::option::Option::unwrap_or" and mir.same_value(e_id[2][1], e_port)
                  and mir.last_field(e_id[2][0]) == "id" and mir.last_field(e_port) == "client_port")
            ck.expect(ok, "handle_received_msg#OpenPort", "Request(client_port, id.unwrap_or(client_port))",
                      f"OpenPort request built from ({mir.show(e_port)}, {mir.show(e_id)})", x.loc(bb))
        else:
            # the two components of one zipped (port, id) item: closure parameter `pair.0` / `pair.1`, or the loop item
            # `next(zip(ports, ids)).@Some.0.0` / `.1`
            sp, si = mir.show(e_port), mir.show(e_id)
            ok = sp.endswith(".0") and si.endswith(".1") and sp[:-2] == si[:-2]
            if ok and x is hr:
                ok = "zip" in sp and "ports" in sp and "ids" in sp
            ck.expect(ok, "handle_received_msg#PortData-pair", "Request(pair.0, pair.1) of the zipped (port, id) pair",
                      f"PortData request built from ({mir.show(e_port)}, {mir.show(e_id)})", x.loc(bb))
        n_ok += 1
    ck.expect(n_ok == 2, "handle_received_msg#request-sites", "2 Request::new sites", f"{n_ok} Request::new sites", hr.loc(0))
    z = [(bb, t) for bb, t in hr.calls("std::iter::Iterator::zip")]
    ok = False
    for bb, t in z:
        a0, a1 = hr.expr(t["a"][0]), hr.expr(t["a"][1])
        ok = ok or (mir.last_field(mir.strip_casts(a0[2][0])) == "ports" if a0[0] == "call" and a0[2] else False) and \
            (a1[0] == "call" and a1[1] == "std::option::Option::unwrap_or_else" and mir.last_field(a1[2][0]) == "ids")
    ck.expect(ok, "handle_received_msg#PortData-zip", "ports zipped with ids (defaulting to the ports)",
              "PortData ports are not zipped with their ids", hr.loc(z[0][0]) if z else hr.loc(0))
    # (d) base::Receiver::recv
    r = F.main_body("rch::base::receiver::Receiver::recv")
    rm = [(bb, t) for bb, t in r.calls("std::collections::HashMap::remove") if mir.last_field(r.expr(t["a"][0])) == "expected"]
    ok = False
    if rm:
        key = r.expr(rm[0][1]["a"][1])
        idc = mir.calls_in(key, "chmux::listener::Request::id")
        cb = [(bb, t) for bb, t in r.calls("std::ops::FnOnce::call_once")
              if mir.calls_in(r.expr(t["a"][0]), "std::collections::HashMap::remove")]
        ok = bool(idc) and bool(cb) and _same_next(r, idc[0][2][0], r.expr(cb[0][1]["a"][1]))
    ck.expect(ok, "base::Receiver::recv#lookup", "callback looked up by request.id() and called with that request",
              "the callback is not looked up by the id of the request it receives", r.loc(rm[0][0]) if rm else r.loc(0))
    # (e) forward
    f = F.main_body("chmux::forward::forward")
    wid = [(bb, t) for bb, t in f.calls("chmux::port_allocator::PortReq::with_id")]
    ok = bool(wid) and bool(mir.calls_in(f.expr(wid[0][1]["a"][1]), "chmux::listener::Request::id"))
    zf = [(bb, t) for bb, t in f.calls("std::iter::Iterator::zip")]
    ok2 = any("@Requests" in mir.show(f.expr(t["a"][0])) and mir.calls_in(f.expr(t["a"][1]), "chmux::sender::Sender::connect")
              for bb, t in zf)
    ck.expect(ok and ok2, "forward#ids", "forwarded requests keep their id and are zipped with their connects",
              "forward does not preserve request ids / positional pairing", f.loc(wid[0][0]) if wid else f.loc(0))


def _callback_coroutines(F):
    out = []
    for b in F.by_dp.values():
        if b.crate != "remoc" or "/rch/" not in b.file or b.kind != "coroutine":
            continue
        aw = [a for a in b.awaits() if "chmux::client::Connect" == a.get("fut_ty", "") or
              (a.get("fut_fn") or "").startswith("chmux::listener::Request::accept_from")]
        if aw:
            out.append((b, aw))
    return out


def r05_2(ck, F):
    ck.rule("R05.2", "sibling agreement on failure: every port callback (mpsc, watch, lr, bin x sender, receiver x "
            "serialize, deserialize) sends a notification on its own channel on the Err outcome of connect.await / "
            "request.accept_from(..).await before the task returns",
            "port exhaustion while a value with halves is in transfer: a half that returns silently leaves its user "
            "hanging forever", floor=16)
    notify = ("send", "try_send", "send_replace", "send_modify", "send_if_modified")
    for b, aws in sorted(_callback_coroutines(F), key=lambda x: x[0].path):
        site = mir.strip_generics(b.path).replace("rch::", "")
        nblocks = {bb for bb, t in b.calls() if (callee(t) or "").split("::")[-1] in notify}
        for k in F.children.get((b.crate, b.dp), []):
            pass
        err_targets = []
        for s in b.reachable:
            t = b.term(s)
            if t["t"] != "switch":
                continue
            e = switch_expr(b, s)
            if e[0] != "discr":
                continue
            x = e[1]
            if x[0] == "await" and x[2] in {a["poll_bb"] for a in aws}:
                for v, tb in t["targets"]:
                    if switch_meaning(b, s, v) == "Err":
                        err_targets.append(tb)
                if isinstance(switch_meaning(b, s, None), tuple) and "Err" in switch_meaning(b, s, None):
                    err_targets.append(t["otherwise"])
        if not err_targets:
            ck.bad(site, "Err outcome of connect / accept_from is not examined", b.loc(aws[0]["yield_bb"]))
            continue
        p = b.find_path(err_targets, b.returns(), avoid=nblocks)
        ck.expect(p is None, site, "failure is reported on the half's own channel before returning",
                  f"on failure of connect/accept the task returns without notifying its channel half "
                  f"({b.loc(p[-1]) if p else ''})", b.loc(aws[0]["yield_bb"]))


def r05_3(ck, F):
    ck.rule("R05.3", "interlock: lr and bin Serialize impls call Location::check_local (and start_send) before "
            "PortSerializer::connect; lr returns a serialization error when the other half was already sent",
            "both halves of a single-connection channel sent away: two remote ends wired to nothing", floor=4)
    n = 0
    for b in F.by_dp.values():
        if b.crate != "remoc" or not b.file.endswith(("rch/lr/sender.rs", "rch/lr/receiver.rs", "rch/bin/sender.rs", "rch/bin/receiver.rs")):
            continue
        conns = [bb for bb, t in b.calls("rch::base::sender::PortSerializer::connect")]
        if not conns:
            continue
        n += 1
        checks = [bb for bb, t in b.calls("rch::interlock::Location::check_local")]
        starts = [bb for bb, t in b.calls("rch::interlock::Location::start_send")]
        site = mir.strip_generics(b.path).replace("rch::", "")
        is_lr = "/lr/" in b.file
        ok = bool(checks) and bool(starts) and all(any(b.dominates(c, x) for c in checks) for x in conns)
        if is_lr and ok:
            # failing check returns an error: connect not reachable from the false edge
            for c in checks:
                sw = b.term(c)["tgt"]
                t = b.term(sw)
                if t["t"] == "switch":
                    false_t = [tb for v, tb in t["targets"] if v == "0"]
                    ok = ok and not any(x in b.reach(false_t, avoid=[sw]) for x in conns) if false_t else ok
        ck.expect(ok, site, "interlock checked before the port is registered",
                  "port registered without (successful) interlock check", b.loc(conns[0]))
    ck.expect(n >= 4, "interlock#sites", f"{n} serializers", f"only {n} interlocked serializers found", None)


def r05_3c(ck, F):
    ck.rule("R05.3c", "interlock bookkeeping: when a half of an lr / bin channel is serialized, check_local is evaluated on "
            "the COUNTERPART's location and start_send records the transfer on the location of the half BEING SENT "
            "(Sender::serialize: check receiver, mark sender; Receiver::serialize: check sender, mark receiver)",
            "send the sender, then the receiver of one lr channel: both sends succeed, both ends are remote and wired to "
            "nothing (values silently lost); for bin/io the forwarding mode is never entered", floor=4)
    n = 0
    for b in F.by_dp.values():
        if b.crate != "remoc" or not b.file.endswith(("rch/lr/sender.rs", "rch/lr/receiver.rs", "rch/bin/sender.rs", "rch/bin/receiver.rs")):
            continue
        if not (b.path.endswith("Serialize>::serialize") or "Serialize>::serialize" in b.path and b.kind != "closure"):
            continue
        starts = [(bb, t) for bb, t in b.calls("rch::interlock::Location::start_send")]
        checks = [(bb, t) for bb, t in b.calls("rch::interlock::Location::check_local")]
        if not starts:
            continue
        n += 1
        own = "sender" if "sender.rs" in b.file else "receiver"
        other = "receiver" if own == "sender" else "sender"
        marked = [mir.last_field(b.expr(t["a"][0])) for bb, t in starts]
        checked = [mir.last_field(b.expr(t["a"][0])) for bb, t in checks]
        site = mir.strip_generics(b.path).replace("rch::", "")
        ck.expect(marked == [own] and other in checked, site,
                  f"checks `{other}`, records the transfer on `{own}`",
                  f"serializing the {own} checks {checked} and records the transfer on {marked}: the {own} itself is never "
                  f"marked as sent, so the {other} can be sent as well", b.loc(starts[0][0]))
    ck.expect(n >= 4, "interlock#bookkeeping-sites", f"{n} serializers", f"only {n} serializers found", None)


def r05_3b(ck, F):
    ck.rule("R05.3b", "interlock state machine: Location::check_local returns true for Local; for Sending it becomes Remote "
            "(false) once the transfer was confirmed, stays Sending (false) while pending, and falls back to Local (true) "
            "when the confirmation sender was dropped, i.e. the serialized half was discarded",
            "a half serialized twice (buffered attempt overflowed and the value is re-serialized for streaming, or a "
            "refused send is retried): the interlock stays in Sending and the second serialization wires a forwarder "
            "that waits forever", floor=2)
    from robs_common import event_arms
    b = F.body("rch::interlock::Location::check_local")
    LOC = "rch::interlock::Location"
    larms, lsw, _ = event_arms(b, LOC)

    def stores(region):
        return sorted(rv["variant"] for bb, i, rv in b.aggregates(LOC) if bb in region)

    def results(region):
        out = set()
        for bb in region:
            for st in b.stmts(bb):
                if st["k"] == "assign" and st["p"] == [0] and st["rv"]["r"] == "use":
                    out.add(const_value(b.expr(st["rv"]["o"])))
        return out
    sending = larms["Sending"][2] if "Sending" in larms else set()
    ck.expect("Local" in stores(sending) and 1 in results(sending), "check_local#discarded-transfer",
              "the Sending arm can fall back to Local (true) when the transfer was discarded",
              "a discarded transfer (confirmation sender dropped) never returns the half to Local: a re-serialized half "
              "is treated as being in transfer forever", b.loc(lsw))
    ck.expect("Remote" in stores(sending), "check_local#confirmed-transfer", "confirmed -> Remote",
              "a confirmed transfer does not mark the half Remote", b.loc(lsw))
    try:
        arms, sw, _ = event_arms(b, "tokio::sync::oneshot::error::TryRecvError")
        ok_closed = "Closed" in arms and stores(arms["Closed"][2]) == ["Local"] and results(arms["Closed"][2]) == {1}
        ok_empty = "Empty" in arms and stores(arms["Empty"][2]) == [] and results(arms["Empty"][2]) == {0}
        ck.expect(ok_closed and ok_empty, "check_local#try_recv-table", "Closed -> Local/true, Empty -> unchanged/false",
                  f"try_recv outcomes mapped wrongly (Closed ok: {ok_closed}, Empty ok: {ok_empty})", b.loc(sw))
    except mir.AnchorMissing:
        ck.inconclusive("check_local#try_recv-table", "no explicit match on TryRecvError; only the coarse clauses were checked")


def r05_5(ck, F):
    ck.rule("R05.5", "a forwarder relays the outcome of the onward connection: in the per-request task of chmux::forward the "
            "incoming request is accepted (Request::accept_from) only on the Ok outcome of the outgoing connect, and on its Err "
            "outcome the incoming request is rejected (Request::reject) — it is never accepted before the final endpoint "
            "answered",
            "a half travels over a forwarded port (>= 2 hops) and the final endpoint rejects / has no ports: the origin sees "
            "the port opened and closed at once — a clean end-of-stream instead of a connect error", floor=2)
    fam = [b for b in F.family("chmux::forward::forward") if b.kind == "coroutine"]
    tasks = [b for b in fam if list(b.calls("chmux::listener::Request::accept_from"))]
    if not tasks:
        raise mir.AnchorMissing("per-request task of chmux::forward (a coroutine calling Request::accept_from)")
    k = tasks[0]
    acc = [bb for bb, t in k.calls("chmux::listener::Request::accept_from")]
    rej = [bb for bb, t in k.calls("chmux::listener::Request::reject")]
    conn = [a for a in k.awaits() if "client::Connect" in (a.get("fut_ty") or "") or "client::Connect" in (a.get("fut_fn") or "")]
    if not conn:
        ck.bad("forward#accept-after-connect", "chmux::forward: the per-request task calls Request::accept_from but does not await the "
               "outgoing Connect on its own before it (e.g. both are polled together): the incoming request is accepted regardless "
               "of the final endpoint's answer, a rejection is not relayed", k.loc(acc[0]) if acc else k.loc(0))
        return
    a = conn[0]
    edges = outcome_edges(k, None, lambda x: any(isinstance(w, tuple) and w and w[0] == "await" and w[2] == a["poll_bb"] for w in mir.walk(x)))
    ok_t = [tb for sb, tb, m, e in edges if m == "Ok"]
    err_t = [tb for sb, tb, m, e in edges if m == "Err"]
    ok = bool(ok_t) and bool(acc) and all(k.find_path([0], [x], avoid=ok_t) is None for x in acc)
    ck.expect(ok, "forward#accept-after-connect", "accept_from only after connect.await returned Ok",
              "chmux::forward accepts the incoming port request before / regardless of the outcome of the outgoing connect: a "
              "rejection by the final endpoint is not relayed", k.loc(acc[0]) if acc else k.loc(0))
    ok = bool(err_t) and bool(rej) and all(k.find_path([tb], list(k.returns()), avoid=rej) is None for tb in err_t)
    ck.expect(ok, "forward#reject-on-connect-error", "connect error -> req.reject(..)",
              "chmux::forward does not reject the incoming request when the outgoing connect failed", k.loc(err_t[0]) if err_t else k.loc(0))


def r05_4(ck, F):
    import cancel
    cancel.rule(ck, F, "R05.4", only=("rch::base::", "chmux::receiver::", "chmux::sender::"), floor=4)


def run(ck, F):
    import c03
    ck.run_rule(r05_3b)
    ck.run_rule(r05_3c)
    for r in (r05_1, r05_2, r05_3):
        ck.run_rule(r)
    ck.run_rule(c03.r03_2)
    ck.run_rule(c03.r03_8)
    ck.run_rule(r05_4)
    ck.run_rule(r05_5)
    import c10
    ck.run_rule(c10.r10_7)     # every announced port gets a Request (whose drop answers it): a half is never left without any outcome
    ck.run_rule(c10.r10_6)
    import c07
    ck.run_rule(c07.r07_5)     # a dropped request is rejected by its watcher task, and that rejection cannot be lost
