"""C11 — close and drop reach the other half, correctly classified, losing no sent data."""
import mir
from mir import callee
from common import *  # noqa: F401,F403
from robs_common import event_arms

EXPLANATION = (
    "Static rules for close/drop propagation: R11.1 close and drop notifications travel in the same ordered queue as the "
    "data (Sender and Receiver get clones of the one channel_tx; the drop tasks enqueue on a clone of the half's own "
    "sender; PortReceiveMsg::Finished is built only in the SendFinish arm and queued behind the data of its port); R11.2 "
    "classification constants: ReceiveClose -> CreditProvider::close(true), ReceiveFinish -> close(false); "
    "SendError::is_closed is true exactly for Closed{gracefully: true}; R11.3 a close gates new sends only: the closed "
    "test of CreditUser::request / try_request precedes every grant, and the ReceiveClose arm does not touch the local "
    "receive queue; R11.4 back-channel table agreement for mpsc: the bytes recv_impl writes for each closed reason / "
    "remote send error are the bytes send_impl maps back to that reason, end of stream -> Dropped, anything else -> "
    "Failed; R11.5 the closed_reason table of mpsc::SendError matches the variants' meaning. The position of a close "
    "within a stream and the suffix property of dropped queued values are not decided."
)
ASSUMPTIONS = ["tokio mpsc queues are FIFO", "rch::base channels deliver items in order (C04)"]
NOT_DECIDED = ["position of the close within a stream of messages", "suffix property of values queued locally when the close arrives"]


def r11_1(ck, F):
    ck.rule("R11.1", "notifications share the data queue: create_port gives Sender and Receiver clones of self.channel_tx; "
            "the drop tasks of Sender::new / Receiver::new enqueue on a clone of that same sender; "
            "PortReceiveMsg::Finished is constructed only in the SendFinish arm and sent on the port's receiver_tx_data",
            "end-of-stream overtaking the last data message (receiver sees end with messages missing)", floor=5)
    b = F.main_body("chmux::mux::ChMux::create_port")
    for fn, idx, what in (("chmux::sender::Sender::new", 4, "Sender"), ("chmux::receiver::Receiver::new", 4, "Receiver")):
        cs = list(b.calls(fn))
        if not cs:
            raise mir.AnchorMissing(f"{fn} call in create_port")
        e = b.expr(cs[0][1]["a"][idx])
        ok = e[0] == "call" and e[1] == "std::clone::Clone::clone" and e[2][0] == ("path", "self.channel_tx")
        ck.expect(ok, f"create_port#{what}.tx", "clone of self.channel_tx", f"{what} gets tx = {mir.show(e)}", b.loc(cs[0][0]))
    for fn in ("chmux::sender::Sender::new", "chmux::receiver::Receiver::new"):
        nb = F.body(fn)
        kids = [k for k in F.children.get((nb.crate, nb.dp), []) if k.kind == "coroutine"]
        ok = False
        for k in kids:
            for name in k.upvars:
                for o in F.upvar_origins(k, name):
                    pass
            # the captured sender is a clone of the `tx` argument
            for bb, i, s in nb.assigns():
                if s["rv"]["r"] == "agg" and s["rv"].get("dp") == k.dp:
                    for o in s["rv"]["ops"]:
                        e = nb.expr(o)
                        if e[0] == "call" and e[1] == "std::clone::Clone::clone" and e[2][0] == ("path", "tx"):
                            ok = True
        ck.expect(ok, f"{fn.split('::')[-2]}::new#drop-task-queue", "drop task enqueues on a clone of the half's tx",
                  "the drop notification does not use the half's own event sender", nb.loc(0))
    hr = F.main_body(HANDLE_RECEIVED)
    arms, sw, _ = event_arms(hr, MUX_MSG)
    fin = [(bb, i) for bb, i, rv in hr.aggregates("chmux::receiver::PortReceiveMsg", "Finished")]
    others = [(x, bb) for x in F.by_dp.values() if x.crate == "remoc" and x is not hr
              for bb, i, rv in x.aggregates("chmux::receiver::PortReceiveMsg", "Finished")]
    ok = len(fin) == 1 and not others and fin[0][0] in arms["SendFinish"][2]
    ck.expect(ok, "PortReceiveMsg::Finished#only-in-SendFinish", "constructed once, in the SendFinish arm",
              f"Finished constructed at {[hr.loc(bb, i) for bb, i in fin]} + {[x.path for x, _ in others]}", hr.loc(fin[0][0]) if fin else hr.loc(0))
    if fin:
        sends = [(bb, t) for bb, t in hr.calls("tokio::sync::mpsc::UnboundedSender::send") if bb in arms["SendFinish"][2]]
        ok = bool(sends) and "receiver_tx_data" in mir.show(hr.expr(sends[0][1]["a"][0]))
        ck.expect(ok, "SendFinish#queued-behind-data", "Finished goes through the port's own receive queue",
                  "Finished is not sent on receiver_tx_data", hr.loc(fin[0][0]))


def r11_2(ck, F):
    ck.rule("R11.2", "classification: ReceiveClose arm calls CreditProvider::close(true), ReceiveFinish arm close(false); "
            "chmux SendError::is_closed is true only for Closed{gracefully: true}",
            "a graceful close reported as a failure (or a dropped receiver as a graceful close)", floor=3)
    hr = F.main_body(HANDLE_RECEIVED)
    arms, sw, _ = event_arms(hr, MUX_MSG)
    for var, want in (("ReceiveClose", 1), ("ReceiveFinish", 0)):
        cs = [(bb, t) for bb, t in hr.calls("chmux::credit::CreditProvider::close") if bb in arms[var][2]]
        ok = len(cs) == 1 and const_value(hr.expr(cs[0][1]["a"][1])) == want
        ck.expect(ok, f"handle_received_msg#{var}-close", f"close({'true' if want else 'false'})",
                  f"{var} arm calls close with {[mir.show(hr.expr(t['a'][1])) for _, t in cs]}", hr.loc(cs[0][0]) if cs else hr.loc(sw))
    b = F.body("chmux::sender::SendError::is_closed")
    # result true only under Closed and gracefully == true
    trues = [bb for bb, i, s in b.assigns() if s["p"] == [0] and s["rv"]["r"] == "use" and const_value(b.expr(s["rv"]["o"])) == 1]
    ok = bool(trues)
    for bb in trues:
        ce = conds(b, bb)
        ok = ok and any(e[0] == "discr" and m == "Closed" for e, m in ce) and \
            any(mir.last_field(e) == "gracefully" and m is True for e, m in ce)
    ck.expect(ok, "SendError::is_closed", "true iff Closed{gracefully: true}", "is_closed is not tied to a graceful close", b.loc(0))


def r11_8(ck, F):
    ck.rule("R11.8", "a dropped receiver always re-classifies the port: every non-error path through the ReceiveFinish arm of "
            "handle_received_msg calls CreditProvider::close(false) (which also wakes every sender waiting for credit), "
            "whether or not a ReceiveClose was processed before",
            "Receiver::close() followed by dropping the receiver, sender with set_override_graceful_close(true) (what "
            "chmux::forward uses) waiting for credit: `closed` stays Some(true), nobody wakes the waiter — the send "
            "hangs forever instead of failing with Closed { gracefully: false }", floor=1)
    hr = F.main_body(HANDLE_RECEIVED)
    arms, sw, _ = event_arms(hr, MUX_MSG)
    s_, tb, region = arms["ReceiveFinish"]
    closes = {bb for bb, t in hr.calls("chmux::credit::CreditProvider::close") if bb in region and
              const_value(hr.expr(t["a"][1])) == 0}
    oks = {bb for bb, i, v in hr.result_stores("Ok")} | set(hr.returns())
    errs = {bb for bb, t in hr.calls() if (callee(t) or "").endswith("protocol_err") and bb in region}
    p = hr.find_path([tb], list(oks), avoid=closes | errs)
    ck.expect(bool(closes) and p is None, "handle_received_msg#ReceiveFinish-always-closes",
              "close(false) on every non-error path of the ReceiveFinish arm",
              "the ReceiveFinish arm of handle_received_msg can complete without CreditProvider::close(false): after an earlier "
              "ReceiveClose the credit pool stays 'gracefully closed' and senders that override graceful close wait forever",
              hr.loc(tb), {"path": [hr.loc(x) for x in (p or [])][:12]})


def r11_9(ck, F):
    ck.rule("R11.9", "the receiver's `closed` flag records a close notification that has been queued: in chmux::Receiver::close "
            "no suspension point can follow the store closed = true (the flag is set after the ReceiverClosed event was handed "
            "to the dispatcher queue, not before)",
            "close() cancelled while waiting for a slot in the shared event queue (back pressure): the flag is already set, "
            "ReceiverClosed was never queued, every later close() is a silent no-op — the remote sender never learns of the "
            "close", floor=1)
    b = F.main_body("chmux::receiver::Receiver::close")
    stores = [(bb, i) for bb, i, s in b.field_stores("closed") if s["rv"]["r"] == "use" and const_value(b.expr(s["rv"]["o"])) == 1]
    if not stores:
        raise mir.AnchorMissing("store closed = true in chmux::Receiver::close")
    ys = set(b.yields())
    for bb, i in stores:
        after = b.reach([bb], include_start=True) & ys
        ck.expect(not after, "Receiver::close#flag-after-notify", "no Yield reachable after closed = true",
                  f"chmux::Receiver::close sets closed = true at {b.loc(bb, i)} and can then suspend at "
                  f"{b.loc(sorted(after)[0]) if after else ''}: a cancelled close() leaves the flag set without the notification",
                  b.loc(bb, i))


def r11_3(ck, F):
    ck.rule("R11.3", "close gates new sends only: in CreditUser::request / try_request the closed test dominates every "
            "grant (store to the pool / Ok result); the ReceiveClose arm leaves receiver_tx_data untouched",
            "a message started after the sender learned of the close is still transmitted, or data already queued for "
            "the local receiver is discarded by a remote close", floor=3)
    for fn in (REQUEST, TRY_REQUEST):
        b = F.main_body(fn)
        tests = [s for s in b.reachable if b.term(s)["t"] == "switch" and
                 (lambda e: e[0] == "discr" and mir.last_field(e[1]) == "closed")(switch_expr(b, s))]
        grants = [bb for bb, i, s in b.field_stores("credits")]
        ok = bool(tests) and bool(grants) and all(any(b.dominates(t, g) for t in tests) for g in grants)
        ck.expect(ok, f"{fn.split('::')[-1]}#closed-before-grant", "closed is tested before credits are granted",
                  "credits can be granted without testing the closed flag", b.loc(0))
    hr = F.main_body(HANDLE_RECEIVED)
    arms, sw, _ = event_arms(hr, MUX_MSG)
    region = arms["ReceiveClose"][2]
    touched = [bb for bb in region for s in hr.stmts(bb) if s["k"] == "assign" and
               "receiver_tx_data" in mir.field_leaves(hr.expr(["c", s["p"]]) if len(s["p"]) > 1 else ("const", 0, 0))]
    takes = [bb for bb, t in hr.calls("std::option::Option::take") if bb in region and "receiver_tx_data" in mir.show(hr.expr(t["a"][0]))]
    ck.expect(not touched and not takes, "handle_received_msg#ReceiveClose-keeps-queue", "receive queue untouched by ReceiveClose",
              "ReceiveClose modifies receiver_tx_data (already received data could be lost)", hr.loc(sw))


def r11_4(ck, F):
    ck.rule("R11.4", "mpsc back-channel table agreement: recv_impl writes BACKCHANNEL_MSG_CLOSE for ClosedReason::Closed and "
            "BACKCHANNEL_MSG_ERROR for ClosedReason::Failed and for a remote send error; send_impl maps CLOSE -> "
            "(RemoteSendError::Closed, ClosedReason::Closed), ERROR -> (Forward, Failed), end of stream -> Dropped, "
            "receive error -> Failed", "a graceful close misreported as failure across the connection (or vice versa)", floor=6)
    CR = "rch::ClosedReason"
    rb = F.main_body("rch::mpsc::recv_impl")
    arms, sw, _ = event_arms(rb, CR) if any(True for _ in [0]) else ({}, None, None)
    table_w = {}
    for v, (s, tb, region) in arms.items():
        consts = set()
        for bb in region:
            for st in rb.stmts(bb):
                if st["k"] == "assign":
                    for o in st["rv"].get("ops", []) + [st["rv"].get("o")]:
                        if o and o[0] == "k" and isinstance(o[1], dict) and o[1].get("def", "").startswith("rch::BACKCHANNEL"):
                            consts.add(o[1]["def"].split("::")[-1])
        table_w[v] = sorted(consts)
    ck.expect(table_w.get("Closed") == ["BACKCHANNEL_MSG_CLOSE"] and table_w.get("Failed") == ["BACKCHANNEL_MSG_ERROR"]
              and table_w.get("Dropped") == [], "recv_impl#closed-reason-bytes", f"{table_w}",
              f"recv_impl writes {table_w} for the closed reasons", rb.loc(sw) if sw is not None else rb.loc(0))
    allc = sorted(o[1]["def"].split("::")[-1] for bb, i, st in rb.assigns() for o in st["rv"].get("ops", []) + [st["rv"].get("o")]
                  if o and o[0] == "k" and isinstance(o[1], dict) and o[1].get("def", "").startswith("rch::BACKCHANNEL"))
    ck.expect(allc == ["BACKCHANNEL_MSG_CLOSE", "BACKCHANNEL_MSG_ERROR", "BACKCHANNEL_MSG_ERROR"], "recv_impl#all-bytes",
              "CLOSE once (closed), ERROR twice (failed, remote send error)", f"recv_impl writes {allc}", rb.loc(0))
    sb = F.main_body("rch::mpsc::send_impl")
    sws = [s for s in sb.reachable if sb.term(s)["t"] == "switch" and sb.term(s)["ty"] == "u8" and len(sb.term(s)["targets"]) >= 2]
    if not sws:
        raise mir.AnchorMissing("dispatch on the back-channel byte in send_impl")
    s0 = sws[0]
    vals = {int(v): tb for v, tb in sb.term(s0)["targets"]}
    cclose = int(F.const("rch::BACKCHANNEL_MSG_CLOSE")["value"])
    cerr = int(F.const("rch::BACKCHANNEL_MSG_ERROR")["value"])
    ck.expect(cclose != cerr and set(vals) == {cclose, cerr}, "send_impl#codes", f"dispatch on {sorted(vals)}",
              f"send_impl dispatches on {sorted(vals)}; constants are CLOSE={cclose} ERROR={cerr}", sb.loc(s0))
    reach = {c: sb.reach([tb], avoid=[s0]) for c, tb in vals.items()}    # arms may merge and loop back: do not re-enter the dispatch
    for c, name, want_reason, want_err in ((cclose, "CLOSE", "Closed", "Closed"), (cerr, "ERROR", "Failed", "Forward")):
        if c not in vals:
            continue
        region = reach[c] - set().union(*[r for c2, r in reach.items() if c2 != c])
        reasons = [rv["variant"] for bb, i, rv in sb.aggregates(CR) if bb in region]
        errs = [rv["variant"] for bb, i, rv in sb.aggregates("rch::RemoteSendError") if bb in region]
        ck.expect(reasons == [want_reason] and errs == [want_err], f"send_impl#{name}", f"-> {errs}, {reasons}",
                  f"back-channel {name} is mapped to {errs} / {reasons}; expected {want_err} / {want_reason}", sb.loc(vals[c]))
    # end of stream -> Dropped ; error -> Failed  (all ClosedReason constructions in send_impl)
    allr = sorted(rv["variant"] for bb, i, rv in sb.aggregates(CR))
    ck.expect(allr == ["Closed", "Dropped", "Failed", "Failed", "Failed"], "send_impl#reasons", f"{allr}",
              f"send_impl constructs closed reasons {allr}", sb.loc(0))


def r11_5(ck, F):
    ck.rule("R11.5", "mpsc::SendError::closed_reason: Closed(_) -> Closed, RemoteSend(Send(Closed{..})) -> Dropped, "
            "RemoteSend(Serialize) -> None, everything else -> Failed", "wrong classification shown to the user", floor=1)
    b = F.body("rch::mpsc::sender::SendError::closed_reason")
    got = sorted(rv["variant"] for bb, i, rv in b.aggregates("rch::ClosedReason"))
    arms, sw, _ = event_arms(b, "rch::mpsc::sender::SendError")
    closed_arm = [rv["variant"] for bb, i, rv in b.aggregates("rch::ClosedReason") if bb in arms["Closed"][2]]
    ck.expect(got == ["Closed", "Dropped", "Failed"] and closed_arm == ["Closed"], "SendError::closed_reason",
              f"reasons {got}; Closed arm -> {closed_arm}", f"closed_reason builds {got}; Closed arm -> {closed_arm}", b.loc(0))


def _always_calls(F, body, target):
    """Does every path through `body` call `target` (directly)?"""
    blocks = {bb for bb, t in body.calls(target)}
    return bool(blocks) and body.find_path([0], body.returns(), avoid=blocks) is None


def r11_6(ck, F):
    ck.rule("R11.6", "consumption returns credit unconditionally: in Receiver::recv_any / recv_chunk every frame taken from "
            "the port queue (Data, PortRequests) reaches ChannelCreditReturner::start_return before the next suspension "
            "or return — in particular also after the receiver was closed",
            "receiver closed gracefully while a forwarder (override_graceful_close) still has data in flight: without "
            "returned credit the in-flight messages are stuck although their send completed", floor=4)
    SR = "chmux::credit::ChannelCreditReturner::start_return"
    for fn in ("chmux::receiver::Receiver::recv_any", "chmux::receiver::Receiver::recv_chunk"):
        b = F.main_body(fn)
        ret = {bb for bb, t in b.calls(SR)}
        # crate-local helpers that always call start_return count as start_return
        for bb, t in b.calls():
            fnr = t.get("fn", {})
            if fnr.get("local") and fnr.get("dp"):
                hb = F.by_dp.get(("remoc", fnr["dp"]))
                if hb is not None and hb.file.endswith("chmux/receiver.rs") and _always_calls(F, hb, SR):
                    ret.add(bb)
        n = 0
        for s in b.reachable:
            t = b.term(s)
            if t["t"] != "switch":
                continue
            e = switch_expr(b, s)
            if e[0] != "discr" or not (e[1][0] == "proj" and e[1][2][-2:] == ("@Some", "0") and
                                       any(w[0] == "await" for w in mir.walk(e[1]) if isinstance(w, tuple) and w)):
                continue
            for v, tb in t["targets"]:
                m = switch_meaning(b, s, v)
                if m in ("Data", "PortRequests"):
                    n += 1
                    p = b.find_path([tb], set(b.yields()) | set(b.returns()), avoid=ret)
                    ck.expect(p is None, f"{fn.split('::')[-1]}#{m}-returns-credit", "credit of the consumed frame is returned",
                              f"a {m} frame taken from the queue in {fn.split('::')[-1]} can be consumed without returning its "
                              f"credit (path to {b.loc(p[-1]) if p else ''})", b.loc(tb))
        ck.expect(n == 2, f"{fn.split('::')[-1]}#frame-arms", "Data and PortRequests arms found", f"{n} frame arms found", b.loc(0))


def r11_7(ck, F):
    ck.rule("R11.7", "a processed hang-up is remembered for late observers: the ReceiveClose / ReceiveFinish arms *take* the "
            "notifier list (leaving None), and Closed::new completes immediately when the list is None",
            "Sender::closed() obtained after the hang-up was processed (e.g. by a forwarder busy sending) never resolves: "
            "the close never reaches the original sender", floor=3)
    hr = F.main_body(HANDLE_RECEIVED)
    arms, sw, _ = event_arms(hr, MUX_MSG)
    for var in ("ReceiveClose", "ReceiveFinish"):
        region = arms[var][2]
        takes = [bb for bb, t in hr.calls("std::option::Option::take") if bb in region and
                 "remote_receiver_closed_notify" in mir.show(hr.expr(t["a"][0]))]
        ck.expect(len(takes) == 1, f"handle_received_msg#{var}-takes-notifiers", "notifier list taken (set to None)",
                  f"{var} does not take the notifier list: later closed() futures register a waker nobody fires", hr.loc(sw))
    cb = F.body("chmux::sender::Closed::new")
    fam = F.family("chmux::sender::Closed::new")
    # None arm: no registration (push), i.e. completes immediately
    pushes = [(x, bb) for x in fam for bb, t in x.calls("std::vec::Vec::push")]
    ok = bool(pushes)
    for x, bb in pushes:
        ce = conds(x, bb)
        ok = ok and any(e[0] == "discr" and m == "Some" for e, m in ce)
    ck.expect(ok, "Closed::new#none-is-closed", "a waker is registered only while the list is Some",
              "Closed::new registers a waker even when the hang-up was already processed", cb.loc(0))


def run(ck, F):
    for r in (r11_1, r11_2, r11_3, r11_4, r11_5, r11_6, r11_7, r11_8, r11_9):
        ck.run_rule(r)
    import c19
    ck.run_rule(c19.r19_5)
    ck.run_rule(c19.r19_5b)
    import c06
    ck.run_rule(c06.r06_1b)    # end-of-stream only when the sender really finished     # a held-back connection failure must surface instead of a clean end-of-stream (all four receive paths)
