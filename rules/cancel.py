"""Cancel-safety of state taken out of `self` (shared by C01 / C04 / C05 / C11 / C14).

Scope (derived from the code, not listed by hand): every crate-local `async fn(&mut self)` whose future the
library itself polls as a branch of a `tokio::select!` loop (so it *is* dropped at arbitrary suspension points in
normal operation), every crate-local `async fn(&mut self)` awaited inside such a function (transitively), plus the
functions the properties name as cancellation points (`EXTRA`).

Rule: in these functions a value moved out of a place rooted in `self` with mem::take / mem::replace /
Option::take / Option::replace must be dead (moved on — stored back, returned, handed to a call — or dropped) at
every suspension point reachable from the take.  A value parked in a local across a Yield is lost when the future
is dropped there, while the rest of `self` survives: the next call sees a state that never existed.
"""
import mir
from mir import callee
from common import select_info

TAKES = {"std::mem::take", "std::mem::replace", "std::option::Option::take", "std::option::Option::replace"}
PASS_THROUGH = {"std::option::Option::unwrap", "std::option::Option::expect", "std::option::Option::unwrap_or_default",
                "std::option::Option::unwrap_or", "std::result::Result::unwrap", "std::result::Result::expect",
                "std::ops::Try::branch", "std::option::Option::ok_or", "std::option::Option::ok_or_else",
                "std::convert::Into::into", "std::convert::From::from", "std::result::Result::ok"}
EXTRA = ("chmux::receiver::Receiver::recv_any", "chmux::receiver::Receiver::recv_chunk", "chmux::receiver::Receiver::recv",
         "rch::base::receiver::Receiver::recv", "rch::mpsc::receiver::Receiver::recv", "rch::mpsc::receiver::Receiver::recv_many",
         # fetch-once caches: get() / into_inner() are ordinary futures a caller may drop and retry
         "robj::lazy::Lazy::fetch", "robj::lazy_blob::LazyBlob::fetch")


def _is_mut_self_async(F, path):
    f = F.fns.get(path)
    if not f or not f.get("inputs"):
        return False
    first = f["inputs"][0]
    return first.startswith("&") and "mut" in first.split(" ")[0:2][-1 if first.startswith("&'") else 0] or first.startswith("&mut ")


def scope(F):
    """{fn path: why} of the crate-local `&mut self` async fns that must be cancel safe."""
    out = {}
    work = []
    for b in F.by_dp.values():
        if b.crate != "remoc" or not b.yields():
            continue
        try:
            sels = select_info(b)
        except Exception:
            continue
        for s in sels:
            for a in s["arms"].values():
                fn = a.get("fut")
                if fn and fn in F.fns and fn not in out and _is_mut_self_async(F, fn):
                    out[fn] = f"select! branch in {mir.strip_generics(b.path)}"
                    work.append(fn)
    for fn in EXTRA:
        if fn in F.fns and fn not in out:
            out[fn] = "named cancellation point"
            work.append(fn)
    while work:
        fn = work.pop()
        try:
            b = F.main_body(fn)
        except Exception:
            continue
        for a in b.awaits():
            for o in a.get("src") or ():
                pass
        for bb, t in b.calls():
            c = callee(t)
            if c and c in F.fns and c not in out and F.fns[c].get("async") and _is_mut_self_async(F, c):
                # awaited on the receiver's own state?  (a call on a field of self or on self)
                e = b.expr(t["a"][0]) if t["a"] else None
                if e is not None and any(p == "self" or p.startswith("self.") for p in mir.paths_in(e)):
                    out[c] = f"awaited inside {fn}"
                    work.append(c)
    return out


def _rooted_in_self(e):
    return any(p == "self" or p.startswith("self.") for p in mir.paths_in(e))


def _is_payload_path(proj):
    """`@Variant .0:0 [@Variant .0:0 ...]`: the single payload of tuple-like wrappers (Some / Ok / Ready / Continue / Data(..))"""
    if not proj or len(proj) % 2:
        return False
    return all(isinstance(a, str) and a.startswith("@") and isinstance(f, str) and f.split(":")[0] == ".0" and f.endswith(":0")
               for a, f in zip(proj[0::2], proj[1::2]))


def live_across_yield(b, take_bb, start=None):
    """Does the value produced by the call in `take_bb` (or held by local `start[1]` from block `start[0]`) survive in a local
    up to some Yield?  Returns the first such Yield block (or None).  The value is followed through local-to-local moves,
    payload extraction from wrappers and value-preserving calls; a move of the whole value anywhere else (a place with
    projections, a call argument, an aggregate, the return place) or its Drop kills it; a partial move does not."""
    if start is None:
        t = b.term(take_bb)
        dest = t.get("d")
        if not dest or len(dest) != 1 or t.get("tgt") is None:
            return None
        start = (t["tgt"], 0, dest[0])
    else:
        start = (start[0], 0, start[1])
    seen = set()
    work = [start]
    ys = set(b.yields())
    while work:
        bb, idx, loc = work.pop()
        if (bb, idx, loc) in seen or bb not in b.reachable or b.is_cleanup(bb):
            continue
        seen.add((bb, idx, loc))
        want = ["m", [loc]]
        killed = False
        cur = loc
        stmts = b.stmts(bb)
        for i in range(idx, len(stmts)):
            s = stmts[i]
            if s.get("k") != "assign":
                continue
            rv = s["rv"]
            ops = [rv.get("o"), rv.get("a"), rv.get("b")] + list(rv.get("ops", []))
            if any(o == ["m", [cur]] for o in ops if o):
                if rv["r"] == "use" and len(s["p"]) == 1:
                    cur = s["p"][0]          # plain move into another local: keep following
                else:
                    killed = True
                    break
            elif rv["r"] == "use" and rv.get("o") and rv["o"][0] == "m" and rv["o"][1][0] == cur and len(rv["o"][1]) > 1 \
                    and len(s["p"]) == 1 and _is_payload_path(rv["o"][1][1:]):
                cur = s["p"][0]              # the payload moved out of its wrapper (`(x as Some).0`, `(cf as Continue).0`);
                #                              a move of a named / further field is a partial move: the parent stays tracked
            elif s["p"] == [cur]:
                killed = True                # overwritten
                break
        if killed:
            continue
        term = b.term(bb)
        if term["t"] == "drop" and term["p"] == [cur]:
            continue
        if term["t"] == "call" and any(a == ["m", [cur]] for a in term["a"]):
            c = callee(term) or ""
            if c in PASS_THROUGH and term.get("d") and len(term["d"]) == 1 and term.get("tgt") is not None:
                work.append((term["tgt"], 0, term["d"][0]))     # unwrap / expect / `?` hand the same value on
            continue
        if term["t"] == "yield" or bb in ys:
            return bb
        if term["t"] == "return":
            continue
        for nb in mir.Body.term_succ(term):
            work.append((nb, 0, cur))
    return None


def sites(F, fns):
    """[(fn, body, take bb, taken place text, yield bb or None)] for every take from self in the given functions."""
    out = []
    for fn in sorted(fns):
        try:
            b = F.main_body(fn)
        except Exception:
            continue
        for bb, t in b.calls(TAKES):
            if not t["a"]:
                continue
            e = b.expr(t["a"][0])
            if not _rooted_in_self(e):
                continue
            out.append((fn, b, bb, mir.show(e), live_across_yield(b, bb)))
    return out


def frames_rule(ck, F, rid):
    ck.rule(rid, "a frame taken from the port queue is put away before the receiver can be suspended again: in "
            "chmux::Receiver::recv_any / recv_chunk the message obtained from self.rx.recv().await is moved on (stored, returned, "
            "handed to recv_data) or dropped before any further suspension point",
            "receive cancelled (timeout / select!) at an await placed between taking a frame from the queue and storing it (e.g. "
            "a credit flush while the return path is congested): the frame is lost — a lost first frame loses the message, a "
            "lost middle frame delivers a message with bytes missing", floor=2)
    n = 0
    for fn in ("chmux::receiver::Receiver::recv_any", "chmux::receiver::Receiver::recv_chunk"):
        b = F.main_body(fn)
        for a in b.awaits():
            if not (a.get("fut_fn") or a.get("fut_ty") or "").startswith("tokio::sync::mpsc::UnboundedReceiver") and \
                    "UnboundedReceiver" not in (a.get("fut_ty") or "") and "unbounded::UnboundedReceiver" not in (a.get("fut_fn") or ""):
                continue
            if a.get("ready_bb") is None or a.get("poll_bb") is None:
                continue
            d = b.term(a["poll_bb"]).get("d")
            if not d or len(d) != 1:
                continue
            n += 1
            y = live_across_yield(b, None, start=(a["ready_bb"], d[0]))
            ck.expect(y is None, f"{fn.split('::')[-1]}#queue-frame-put-away",
                      "the received message is moved on or dropped before the next suspension point",
                      f"{fn}: the message taken from the port queue at line {a['line']} is still held in a local at the suspension "
                      f"point {b.loc(y) if y is not None else ''}; cancelling the receive there loses the frame", b.loc(a["ready_bb"]))
    ck.expect(n >= 2, "queue-frames#sites", f"{n} queue receives", f"only {n} queue receives found", None)


def rule(ck, F, rid, only=None, floor=3, min_fns=3):
    ck.rule(rid, "cancel-safe state: in every `&mut self` async fn that the library polls as a select! branch (or that such a "
            "function awaits, or that the properties name as a cancellation point) a value taken out of self with mem::take / "
            "mem::replace / Option::take is moved on or dropped before every suspension point that can follow; it is never "
            "parked in a local across a Yield",
            "the future is dropped at that await (select! branch lost, timeout): the taken state is gone while the rest of "
            "self survives — the next call delivers an item without its ports, skips a stashed message, or loses a buffer",
            floor=floor)
    sc = scope(F)
    fns = [f for f in sc if only is None or any(f.startswith(p) for p in only)]
    n = 0
    for fn, b, bb, place, y in sites(F, fns):
        n += 1
        site = f"{mir.strip_generics(fn).replace('::', '_')}#take-{place.split('(')[-1].strip(')').replace('.', '_')[:40]}"
        ck.expect(y is None, site, f"value taken from {place[:60]} is dead at every later suspension point ({sc[fn]})",
                  f"{fn}: the value taken out of {place[:80]} at {b.loc(bb)} is still held in a local at the suspension point "
                  f"{b.loc(y) if y is not None else ''}; dropping the future there loses it ({sc[fn]})", b.loc(bb),
                  {"function": fn, "scope_reason": sc[fn]})
    ck.expect(len(fns) >= min_fns, "scope#functions", f"{len(fns)} cancel-safe functions in scope, {n} take sites",
              f"only {len(fns)} functions in scope", None)
