"""C01 — port delivery: exactly-once, in-order, byte-exact, cancel-atomic messages."""
import mir
from mir import callee
from common import *  # noqa: F401,F403

EXPLANATION = (
    "Static MIR rules for the structural clauses C01 rests on: R01.1 the first/last flags of every emitted frame are "
    "a start-of-message flag that is cleared on every path to the loop back edge and an is-empty test of the remainder "
    "of the very buffer that was split; R01.2 the payload of each frame is split_to of the message buffer, which has no "
    "other consumer; R01.3 flags, port and payload pass through the dispatcher (handle_event / handle_received_msg) "
    "unchanged; R01.4 a port has one writer (&mut self, !Clone, by-value ChunkSender methods) and frames are "
    "constructed only in sender.rs / the dispatcher / the decoder; R01.5 reassembly restarts on `first`, completes on "
    "`last`; R01.6 the two receive entry points agree on the assembly state: a frame stashed in Receiver.receiving when "
    "recv_chunk reports Cancelled is looked at by every entry point before it reads the port queue. Byte equality, "
    "eventual delivery and interleavings with the peer are not decided."
)
ASSUMPTIONS = [
    "rustc's MIR construction is faithful; unwind edges ignored",
    "tokio mpsc queues are FIFO; Bytes::split_to / is_empty / len have their documented meaning",
]
NOT_DECIDED = ["byte equality for all sizes and configurations", "eventual delivery; interleavings with the peer",
               "cancellation atomicity beyond R01.1 / R01.6 / R03.1"]

RECEIVER = "chmux::receiver::Receiver"
RECEIVING = "chmux::receiver::Receiving"


def _emit_sites(F):
    for path, b in emit_bodies(F):
        k = 0
        for bb, i, rv in sorted(b.aggregates(PORT_EVT), key=lambda x: (x[0], x[1])):
            if rv["variant"] in ("SendData", "SendPorts"):
                yield path, b, bb, i, rv, f"{fn_short(path)}#{rv['variant']}{k}"
                k += 1


def _op(b, rv, fld):
    return b.expr(rv["ops"][rv["fields"].index(fld)])


def r01_1(ck, F):
    ck.rule("R01.1", "frame flags: `first` is true at message start and cleared on every path from the enqueue to the "
            "loop back edge; `last` is is_empty() of the remainder of the buffer that was split (and `finish` for "
            "chunk streaming)",
            "any two-chunk message: `first` never cleared makes the receiver restart at chunk 2 (truncated message); a "
            "wrong `last` completes early or never", floor=5)
    emit_api_coverage(ck, F)
    for path, b, bb, i, rv, site in _emit_sites(F):
        first = _op(b, rv, "first")
        last = _op(b, rv, "last")
        fld = "data" if rv["variant"] == "SendData" else "ports"
        payload = _op(b, rv, fld)
        looped = any(bb in b.loop_blocks(h) and not any(y in b.loop_blocks(h) and False for y in ())
                     for _, h in b.back_edges() if any(t in b.loop_blocks(h) for t, _ in b.calls(TAKE)))
        # ---- first
        if first == ("const", "1", "bool"):
            ok_first = not looped or False
            if looped:
                ck.bad(site + "#first", "looped emit site uses the literal `true` for `first`", b.loc(bb, i))
            else:
                ck.ok(site + "#first", "single-frame message: first = true", b.loc(bb, i))
        elif first[0] in ("var", "path"):
            # stores of false to the flag
            name = first[1]
            clears = set()
            if first[0] == "var":
                for l in b.local_by_name(name):
                    for d in b.defs.get(l, []):
                        if d[0] == "assign" and d[3]["rv"]["r"] == "use" and const_value(b.expr(d[3]["rv"]["o"])) == 0:
                            clears.add(d[1])
                inits = [d for l in b.local_by_name(name) for d in b.defs.get(l, [])
                         if d[0] == "assign" and d[3]["rv"]["r"] == "use" and const_value(b.expr(d[3]["rv"]["o"])) == 1]
                init_ok = bool(inits)
            else:
                fname = name.split(".")[-1]
                for sb, si, s in b.field_stores(fname):
                    if s["rv"]["r"] == "use" and const_value(b.expr(s["rv"]["o"])) == 0:
                        clears.add(sb)
                # initialised true where the ChunkSender is built
                cb = F.body("chmux::sender::Sender::send_chunks")
                init_ok = any(const_value(_op(cb, r, "first")) == 1
                              for _, _, r in cb.aggregates("chmux::sender::ChunkSender"))
            # every path from the construction to a loop back edge target / return passes a clear
            heads = {h for _, h in b.back_edges() if bb in b.loop_blocks(h)}
            goals = heads | set(b.result_stores("Ok") and [x for x, _, _ in b.result_stores("Ok")])
            p = b.find_path([bb], goals, avoid=clears, from_succ=True)
            ck.expect(init_ok and bool(clears) and p is None, site + "#first",
                      f"`{name}` starts true and is cleared on every path after the enqueue",
                      f"`{name}` is not cleared on a path from the frame at {b.loc(bb, i)} to "
                      f"{b.loc(p[-1]) if p else '?'} (init true: {init_ok}, clears: {len(clears)})", b.loc(bb, i))
        else:
            ck.bad(site + "#first", f"unrecognised `first` operand {mir.show(first)}", b.loc(bb, i))
        # ---- last
        ok_last = False
        why = mir.show(last)
        if payload[0] == "call" and payload[1] == "bytes::Bytes::split_to":
            buf = payload[2][0]

            def is_empty_of_buf(e):
                return e[0] == "call" and e[1] == "bytes::Bytes::is_empty" and mir.same_value(e[2][0], buf)
            if is_empty_of_buf(last):
                ok_last = True
            elif last[0] == "var":
                # `data.is_empty() && finish`: defs {false, finish}, the `finish` def guarded by is_empty(buf)
                defs = [d for d in last[3]]
                vals_ok = all(d == ("path", "finish") or const_value(d) == 0 for d in defs) and ("path", "finish") in defs
                guard_ok = False
                for l in [x for x in range(len(b.locals)) if (b.local_name(x) or f"_{x}") == last[1]]:
                    for d in b.defs.get(l, []):
                        if d[0] == "assign" and b.expr(d[3]["rv"].get("o", ["k", {}])) == ("path", "finish"):
                            ce = [(s, v) for s, tb, v in controlling_edges(b, d[1])
                                  if is_empty_of_buf(switch_expr(b, s)) and switch_meaning(b, s, v) is True]
                            guard_ok = guard_ok or bool(ce)
                ok_last = vals_ok and guard_ok
        elif fld == "data":
            ok_last = last == ("const", "1", "bool") or last == ("path", "finish")
        else:
            # ports: last = next.is_empty() where next is the split-off remainder
            ok_last = last[0] == "call" and last[1] == "std::vec::Vec::is_empty" and \
                bool(mir.calls_in(last, "std::vec::Vec::split_off"))
        ck.expect(ok_last, site + "#last", f"last = {why[:90]}",
                  f"`last` = {why[:160]} is not the emptiness of the remainder of the split buffer", b.loc(bb, i))


def r01_2(ck, F):
    ck.rule("R01.2", "the message buffer of each emit loop is consumed only by split_to (len / is_empty / clone are the "
            "only other uses)", "bytes sent twice or skipped", floor=2)
    allowed = {"bytes::Bytes::len", "bytes::Bytes::is_empty", "bytes::Bytes::split_to", "std::clone::Clone::clone",
               "bytes::Bytes::clone"}
    for path, b in emit_bodies(F):
        bufs = []
        for bb, t in b.calls("bytes::Bytes::split_to"):
            bufs.append(b.expr(t["a"][0]))
        if not bufs:
            continue
        buf = bufs[0]
        bad = []
        n = 0
        for bb, t in b.calls():
            c = callee(t)
            if c in ("std::fmt::Arguments::new", None):
                continue
            for a in t["a"]:
                if a[0] == "k":
                    continue
                e = b.expr(a)
                if e[0] in ("var", "path") and mir.same_value(e, buf):
                    n += 1
                    if c not in allowed:
                        bad.append((bb, c))
        ck.expect(not bad, f"{fn_short(path)}#buffer-uses", f"{n} uses of the message buffer, all in {sorted(x.split('::')[-1] for x in allowed)}",
                  f"message buffer also passed to {[c for _, c in bad]}", b.loc(bad[0][0]) if bad else b.loc(0))


def r01_3(ck, F):
    ck.rule("R01.3", "handle_event(SendData/SendPorts) and handle_received_msg(Data/PortData) copy port, first, last, "
            "wait and the payload from the matched event / message into the constructed message unchanged",
            "every chunked message (e.g. swapped first/last flags)", floor=10)
    b = F.main_body(HANDLE_EVENT)
    aggs = list(b.aggregates(MUX_MSG, "Data"))
    if not aggs:
        raise mir.AnchorMissing("MultiplexMsg::Data construction in handle_event")
    for bb, i, rv in aggs:
        for fld, src in (("port", "@SendData.remote_port"), ("first", "@SendData.first"), ("last", "@SendData.last")):
            e = _op(b, rv, fld)
            ck.expect(e[0] == "path" and e[1].endswith(src), f"handle_event#Data.{fld}", f"{fld} <- {src}",
                      f"MultiplexMsg::Data.{fld} <- {mir.show(e)} (expected the event's {src})", b.loc(bb, i))
    wd = list(b.calls("chmux::mux::TransportMsg::with_data"))
    if not wd:
        raise mir.AnchorMissing("TransportMsg::with_data call in handle_event")
    for bb, t in wd:
        e = b.expr(t["a"][1])
        ck.expect(e[0] == "path" and e[1].endswith("@SendData.data"), "handle_event#Data.payload",
                  "payload <- the event's data", f"payload <- {mir.show(e)}", b.loc(bb))
    aggs = list(b.aggregates(MUX_MSG, "PortData"))
    if not aggs:
        raise mir.AnchorMissing("MultiplexMsg::PortData construction in handle_event")
    for bb, i, rv in aggs:
        for fld, src in (("port", "@SendPorts.remote_port"), ("first", "@SendPorts.first"), ("last", "@SendPorts.last"),
                         ("wait", "@SendPorts.wait")):
            e = _op(b, rv, fld)
            ck.expect(e[0] == "path" and e[1].endswith(src), f"handle_event#PortData.{fld}", f"{fld} <- {src}",
                      f"MultiplexMsg::PortData.{fld} <- {mir.show(e)} (expected the event's {src})", b.loc(bb, i))
    r = F.main_body(HANDLE_RECEIVED)
    aggs = list(r.aggregates("chmux::receiver::ReceivedData"))
    if not aggs:
        raise mir.AnchorMissing("ReceivedData construction in handle_received_msg")
    for bb, i, rv in aggs:
        e = _op(r, rv, "buf")
        ck.expect("received_msg.data" in mir.paths_in(e), "handle_received_msg#ReceivedData.buf",
                  "buf <- the frame's payload", f"buf <- {mir.show(e)}", r.loc(bb, i))
        for fld in ("first", "last"):
            e = _op(r, rv, fld)
            ck.expect(e[0] == "path" and e[1].endswith("@Data." + fld), f"handle_received_msg#ReceivedData.{fld}",
                      f"{fld} <- message's {fld}", f"{fld} <- {mir.show(e)}", r.loc(bb, i))
    aggs = list(r.aggregates("chmux::receiver::ReceivedPortRequests"))
    if not aggs:
        raise mir.AnchorMissing("ReceivedPortRequests construction in handle_received_msg")
    for bb, i, rv in aggs:
        for fld in ("first", "last"):
            e = _op(r, rv, fld)
            ck.expect(e[0] == "path" and e[1].endswith("@PortData." + fld), f"handle_received_msg#ReceivedPortRequests.{fld}",
                      f"{fld} <- message's {fld}", f"{fld} <- {mir.show(e)}", r.loc(bb, i))
    # the data frame is routed to the queue of the port named in the message
    for bb, t in r.calls("std::collections::HashMap::get_mut"):
        pass


def r01_4(ck, F):
    ck.rule("R01.4", "one ordered queue, one writer: chmux::Sender is !Clone, its emit methods take &mut self, "
            "ChunkSender holds &mut Sender and its methods consume self; SendData/SendPorts events are constructed only "
            "in sender.rs, MultiplexMsg::Data/PortData only in the dispatcher and the decoder; each dispatcher arm "
            "forwards with exactly one Permit::send",
            "two writers interleaving chunks of different messages on one port", floor=12)
    S = "chmux::sender::Sender"
    ck.expect(not F.has_impl(S, "std::clone::Clone"), "Sender#!Clone", "chmux::Sender is not Clone",
              "chmux::Sender implements Clone", None)
    for m in ("send", "try_send", "send_chunks", "connect"):
        f = F.fn(f"{S}::{m}")
        ck.expect(f["inputs"][0].startswith("&") and "mut" in f["inputs"][0].split(" ")[0:3].__str__() and S in f["inputs"][0],
                  f"Sender::{m}#&mut-self", f"takes {f['inputs'][0]}", f"Sender::{m} takes {f['inputs'][0]}, not &mut self",
                  f"{f['file']}:{f['line']}")
    cs = F.adt_fields("chmux::sender::ChunkSender")
    ck.expect(cs["sender"]["ty"].startswith("&") and "mut chmux::sender::Sender" in cs["sender"]["ty"],
              "ChunkSender#&mut-Sender", "ChunkSender borrows the Sender mutably", f"ChunkSender.sender: {cs['sender']['ty']}", None)
    ck.expect(not F.has_impl("chmux::sender::ChunkSender", "std::clone::Clone"), "ChunkSender#!Clone", "not Clone",
              "ChunkSender implements Clone", None)
    for m in ("send", "send_final", "finish"):
        f = F.fn(f"chmux::sender::ChunkSender::{m}")
        ck.expect(f["inputs"][0].startswith("chmux::sender::ChunkSender"), f"ChunkSender::{m}#by-value",
                  "consumes self (no send after finish)", f"ChunkSender::{m} takes {f['inputs'][0]}", f"{f['file']}:{f['line']}")
    for b in F.by_dp.values():
        if b.crate != "remoc":
            continue
        for bb, i, rv in b.aggregates(PORT_EVT):
            if rv["variant"] in ("SendData", "SendPorts"):
                ck.expect(b.file.endswith("chmux/sender.rs"), f"PortEvt::{rv['variant']}#constructed-in@{mir.strip_generics(b.path)}",
                          "constructed in sender.rs", f"PortEvt::{rv['variant']} constructed in {b.path}", b.loc(bb, i))
        for bb, i, rv in b.aggregates(MUX_MSG):
            if rv["variant"] in ("Data", "PortData"):
                p = mir.strip_generics(b.path)
                ok = p.startswith("chmux::mux::ChMux::handle_event") or p.startswith("chmux::msg::MultiplexMsg::read")
                ck.expect(ok, f"MultiplexMsg::{rv['variant']}#constructed-in@{p}", "constructed by dispatcher / decoder",
                          f"MultiplexMsg::{rv['variant']} constructed in {b.path}", b.loc(bb, i))
    # exactly one Permit::send per path through handle_event
    he = F.main_body(HANDLE_EVENT)
    fam = [x for x in F.family(HANDLE_EVENT)]
    sends = [(x, bb) for x in fam for bb, _ in x.calls(PERMIT_SEND)]
    send_blocks = {bb for x, bb in sends if x is he}
    # the `send_msg` closure wraps Permit::send: calls of the closure count as sends
    closure_sends = {x.dp for x, bb in sends if x is not he and x.kind == "closure"}
    for bb, t in he.calls():
        fn = t.get("fn", {})
        if fn.get("dp") in closure_sends:
            send_blocks.add(bb)
        elif callee(t) in ("std::ops::Fn::call", "std::ops::FnMut::call_mut", "std::ops::FnOnce::call_once"):
            for o in he.origins(t["a"][0]):
                if o.kind == "agg" and o.detail[2] == "closure":
                    st = he.stmts(o.detail[0])[o.detail[1]]
                    if st["rv"].get("dp") in closure_sends:
                        send_blocks.add(bb)
    rets = set(he.returns())
    # no path with two sends: from each send block no other send block reachable
    twice = [(a, c) for a in send_blocks for c in he.reach([a], include_start=False) & send_blocks]
    ck.expect(len(send_blocks) >= 10 and not twice, "handle_event#one-send-per-event",
              f"{len(send_blocks)} forwarding sites, none reachable from another",
              f"two forwarding sends on one path: {[(he.loc(a), he.loc(c)) for a, c in twice[:3]]} (sites: {len(send_blocks)})", he.loc(0))


def r01_5(ck, F):
    ck.rule("R01.5", "reassembly: a fresh Receiving::Data buffer is installed only under `first`, the frame's buf is "
            "appended, and Received::Data is returned only under `last`",
            "a cancelled message followed by another: chunks of the two would be merged, or a message completes early",
            floor=3)
    n = 0
    for b in F.by_dp.values():
        if b.crate != "remoc" or not b.file.endswith("chmux/receiver.rs"):
            continue
        for bb, i, rv in b.aggregates(RECEIVING, "Data"):
            e = b.expr(rv["ops"][0])
            if not (e[0] == "call" and e[1].endswith("DataBuf::new")):
                continue   # re-store of the buffer in progress
            n += 1
            ce = conds(b, bb)
            ok = any(mir.last_field(x) == "first" and m is True for x, m in ce)
            ck.expect(ok, f"{mir.strip_generics(b.path)}#restart-on-first", "fresh buffer only when `first`",
                      "a fresh reassembly buffer is installed without testing `first`", b.loc(bb, i))
        for bb, i, rv in b.aggregates("chmux::receiver::Received", "Data"):
            n += 1
            ce = conds(b, bb)
            ok = any(mir.last_field(x) == "last" and m is True for x, m in ce)
            ck.expect(ok, f"{mir.strip_generics(b.path)}#complete-on-last", "Received::Data only when `last`",
                      "a message is handed out without testing `last`", b.loc(bb, i))
        for bb, t in b.calls("chmux::receiver::DataBuf::try_push"):
            n += 1
            e = b.expr(t["a"][1])
            ok = mir.last_field(e) == "buf"
            ck.expect(ok, f"{mir.strip_generics(b.path)}#append-frame", "the frame's buf is appended",
                      f"try_push appends {mir.show(e)}", b.loc(bb))


def r01_5b(ck, F):
    ck.rule("R01.5b", "restart on `first` discards the partial message: every path from the entry of the reassembly "
            "function to DataBuf::try_push passes the installation of a fresh DataBuf or the `first == false` edge",
            "a multi-chunk send cancelled after some chunks, then another message: the stale chunks are glued in front "
            "of the next message", floor=1)
    n = 0
    for b in F.by_dp.values():
        if b.crate != "remoc" or not b.file.endswith("chmux/receiver.rs"):
            continue
        pushes = [bb for bb, t in b.calls("chmux::receiver::DataBuf::try_push")]
        if not pushes:
            continue
        n += 1
        fresh = {bb for bb, i, rv in b.aggregates(RECEIVING, "Data")
                 if (lambda e: e[0] == "call" and e[1].endswith("DataBuf::new"))(b.expr(rv["ops"][0]))}
        fresh |= {bb for bb, t in b.calls("chmux::receiver::DataBuf::new")}
        not_first = set()
        for s in b.reachable:
            t = b.term(s)
            if t["t"] == "switch" and mir.last_field(switch_expr(b, s)) == "first":
                not_first |= {tb for v, tb in t["targets"] if v == "0"}
        p = b.find_path([0], pushes, avoid=fresh | not_first)
        ck.expect(p is None, f"{mir.strip_generics(b.path)}#first-discards-partial",
                  "a frame marked first is always appended to a fresh buffer",
                  f"try_push at {b.loc(pushes[0])} can append a frame to a buffer kept from an earlier message although "
                  f"`first` was not tested false", b.loc(pushes[0]))
    ck.expect(n >= 1, "reassembly#sites", f"{n} reassembly function(s)", "no reassembly function found", None)


def r01_6(ck, F):
    ck.rule("R01.6", "stash agreement: when recv_chunk returns Err(Cancelled) after storing the payload of the frame it "
            "just took from the port queue into Receiver.receiving (the start of the NEXT message), every receive entry "
            "point (recv_chunk, recv_any) must distinguish that Receiving variant before its first read of the port queue",
            "chunk-streamed message cancelled, next message sent; receiver calls recv_chunk -> Cancelled -> recv_any "
            "(exactly what rch::base::Receiver and forward do): the next message is lost", floor=2)
    rc = F.main_body(f"{RECEIVER}::recv_chunk")
    # stash sites: stores to self.receiving of an aggregate holding (a value derived from) data.buf, from which a
    # return of Err(Cancelled) is reachable without another store to self.receiving
    stash_variants = {}
    stores = [(bb, i, s) for bb, i, s in rc.field_stores("receiving")]
    cancelled = [bb for bb, i, rv in rc.aggregates("chmux::receiver::RecvChunkError", "Cancelled")]
    if not cancelled:
        raise mir.AnchorMissing("RecvChunkError::Cancelled construction in recv_chunk")
    for bb, i, s in stores:
        e = rc.expr(s["rv"]["o"]) if s["rv"]["r"] == "use" else None
        if s["rv"]["r"] == "agg":
            e = ("agg", s["rv"].get("adt"), s["rv"].get("variant"),
                 tuple((n, rc.expr(o)) for n, o in zip(s["rv"].get("fields", []), s["rv"]["ops"])))
        if not e or e[0] != "agg" or e[1] != RECEIVING:
            continue
        holds_payload = "buf" in mir.field_leaves(e)
        if not holds_payload:
            continue
        other = {sb for sb, _, _ in stores if sb != bb}
        if rc.find_path([bb], cancelled, avoid=other):
            stash_variants.setdefault(e[2], (bb, i))
    ck.expect(True, "recv_chunk#stash-sites", f"Cancelled returns that leave a queued payload in Receiver.receiving: "
              f"variants {sorted(stash_variants)}", rc.loc(cancelled[0]))
    if not stash_variants:
        return
    for entry in ("recv_chunk", "recv_any"):
        b = F.main_body(f"{RECEIVER}::{entry}")
        polls = [bb for bb, _ in b.calls("tokio::sync::mpsc::UnboundedReceiver::recv")]
        if not polls:
            raise mir.AnchorMissing(f"port queue read in {entry}")
        for var, (sbb, si) in sorted(stash_variants.items()):
            # switches on discr(self.receiving) with an explicit target for `var`
            sw = []
            for s in b.reachable:
                t = b.term(s)
                if t["t"] != "switch":
                    continue
                e = switch_expr(b, s)
                if e[0] == "discr" and e[1][0] == "path" and e[1][1] == "self.receiving":
                    names = [switch_meaning(b, s, v) for v, _ in t["targets"]]
                    if var in names:
                        sw.append(s)
            p = b.find_path([0], polls, avoid=sw)
            ck.expect(p is None, f"{entry}#stash-{var}",
                      f"a match on self.receiving distinguishing `{var}` dominates the first port-queue read",
                      f"{entry} reads the port queue at {b.loc(p[-1]) if p else ''} without first looking at "
                      f"Receiving::{var}, in which recv_chunk leaves the first frame of the next message when it "
                      f"reports Cancelled ({rc.loc(sbb, si)})", b.loc(polls[0]),
                      {"stash_store": rc.loc(sbb, si), "entry_point": entry, "variant": var})


def r01_8(ck, F):
    ck.rule("R01.8", "frame flags travel with the frame in the receiver: every Receiving::Chunks { completed } is built "
            "from the `last` flag of the frame (or stash, or recv_data parameter) whose payload is being handed on, "
            "Receiving::Restarted { buf, last } stores buf and last of one and the same frame, and every call of "
            "recv_data passes (buf, first, last) of one frame — with first = true exactly for the stashed start of a "
            "message",
            "a single-frame message following a cancelled chunk stream never completes (completed: false for the "
            "stashed frame), or a multi-frame message following it is discarded (first / last swapped on replay)", floor=6)
    RCV = "chmux::receiver::Receiving"
    n = 0
    for fn in ("chmux::receiver::Receiver::recv_chunk", "chmux::receiver::Receiver::recv_any", "chmux::receiver::Receiver::recv_data"):
        try:
            b = F.main_body(fn)
        except Exception:
            b = F.body(fn)
        short = fn.split("::")[-1]
        k = 0
        for bb, i, rv in b.aggregates(RCV):
            f = dict(zip(rv["fields"], rv["ops"]))
            if rv["variant"] == "Chunks":
                e = mir.strip_casts(b.expr(f["completed"]))
                ok = mir.last_field(e) == "last" or (e[0] == "var" and e[1] == "last" and not e[2])
                ck.expect(ok, f"{short}#Chunks{k}-completed", f"completed = {mir.show(e)[-40:]}",
                          f"{fn}: Receiving::Chunks is built with completed = {mir.show(e)[:80]}, not the `last` flag of the "
                          f"frame being handed on", b.loc(bb, i))
                k += 1
                n += 1
            elif rv["variant"] == "Restarted":
                eb, el = b.expr(f["buf"]), b.expr(f["last"])
                sb, sl = mir.show(eb), mir.show(el)
                ok = sb.endswith(".buf") and sl.endswith(".last") and sb[:-4] == sl[:-5]
                ck.expect(ok, f"{short}#Restarted-same-frame", "buf and last of the same frame are stashed",
                          f"{fn}: Receiving::Restarted stores buf = {sb[-50:]} with last = {sl[-50:]}", b.loc(bb, i))
                n += 1
        for k, (bb, t) in enumerate(b.calls("chmux::receiver::Receiver::recv_data")):
            eb, ef, el = (mir.strip_casts(b.expr(a)) for a in t["a"][1:4])
            sb, sf, sl = mir.show(eb), mir.show(ef), mir.show(el)
            base = sb[:-4] if sb.endswith(".buf") else None
            stash = "@Restarted" in sb
            ok_last = base is not None and sl == base + ".last"
            ok_first = base is not None and (sf == base + ".first" or (stash and const_value(ef) == 1))
            ck.expect(ok_last and ok_first, f"{short}#recv_data{k}-flags",
                      f"recv_data({sb[-30:]}, {sf[-30:]}, {sl[-30:]})",
                      f"{fn}: recv_data is called with buf = {sb[-60:]}, first = {sf[-60:]}, last = {sl[-60:]}: the flags are not "
                      f"those of the frame whose payload is passed" + (" (a stashed frame is the start of a message: first must be true)" if stash else ""),
                      b.loc(bb))
            n += 1
    ck.expect(n >= 6, "frame-flags#sites", f"{n} sites", f"only {n} flag hand-over sites found in chmux/receiver.rs", None)


def r01_9(ck, F):
    import cancel
    cancel.frames_rule(ck, F, "R01.9")


def r01_7(ck, F):
    import cancel
    cancel.rule(ck, F, "R01.7", only=("chmux::receiver::", "chmux::sender::", "chmux::credit::"), floor=4)


def run(ck, F):
    for r in (r01_1, r01_2, r01_3, r01_4, r01_5, r01_5b, r01_6, r01_7, r01_8, r01_9):
        ck.run_rule(r)
    import c02
    ck.run_rule(c02.r02_1b)    # no surplus (empty) frame is emitted for a message: every frame of a message carries payload or is the single frame of an empty message
