"""C15 — watch channels converge to the latest value and never go backwards."""
import mir
from mir import callee
from common import *  # noqa: F401,F403
import c04

EXPLANATION = (
    "Static rules for the three structural clauses behind watch convergence: R15.1 the forwarder (watch::send_impl) "
    "sends the value obtained by borrow_and_update after the changed() notification of the same iteration, not a value "
    "read earlier; R15.2 the snapshot carried by a transported receiver is read with borrow_and_update on the very "
    "receiver clone that is then moved into the forwarder, with no other seen-marking access in between (an update "
    "landing between snapshot and forwarder start is still forwarded), and a transported sender's forwarder uses the "
    "receiver of the channel created from the carried snapshot; R15.3 the remote->local direction (recv_impl) applies "
    "values sequentially (no spawn; shared with R04.3); R15.3 the forwarding loop is left for a gone sender only through "
    "the Err of changed() (never through has_changed() and the like, which report closure before an unseen value). Monotonicity and convergence themselves rest on chmux ordering "
    "(C01) and tokio::sync::watch, which are trusted."
)
ASSUMPTIONS = ["tokio::sync::watch: changed() completes iff an unseen version exists; borrow_and_update marks seen",
               "chmux ordering (C01)"]
NOT_DECIDED = ["monotonicity / convergence for all update rates and hop counts"]

BAU = "tokio::sync::watch::Receiver::borrow_and_update"
MARKING = {BAU, "tokio::sync::watch::Receiver::changed", "tokio::sync::watch::Receiver::mark_unchanged",
           "tokio::sync::watch::Receiver::mark_changed", "tokio::sync::watch::Receiver::wait_for"}


def r15_1(ck, F):
    ck.rule("R15.1", "watch::send_impl: the value given to the remote sender derives from borrow_and_update, and that call "
            "is reached only from the Ok outcome of the changed() branch of the same iteration",
            "the forwarder sends a stale value: the remote receiver never converges to the latest", floor=2)
    b = F.main_body("rch::watch::send_impl")
    sends = [(bb, t) for bb, t in b.calls() if mir.strip_generics(callee(t) or "").endswith("base::sender::Sender::send")]
    if not sends:
        raise mir.AnchorMissing("remote_tx.send in watch::send_impl")
    bb, t = sends[0]
    e = b.expr(t["a"][1])
    baus = mir.calls_in(e, BAU)
    ck.expect(bool(baus), "send_impl#value-is-latest", "sent value = rx.borrow_and_update().clone()",
              f"watch::send_impl sends {mir.show(e)[:100]}, not the freshly borrowed value", b.loc(bb))
    if baus:
        cb = baus[0][3]
        sel = [a for a in b.awaits() if "PollFn" in (a.get("fut_fn") or "") or "PollFn" in a.get("fut_ty", "")]
        ce = conds(b, cb)
        ok = any(x[0] == "discr" and m == "Ok" and "poll_fn" in mir.show(x) for x, m in ce) and \
            all(b.dominates(a["poll_bb"], cb) for a in sel)
        ck.expect(ok, "send_impl#borrow-after-changed", "borrowed after this iteration's changed() returned Ok",
                  "the value is borrowed before / independently of the change notification", b.loc(cb))


def r15_2(ck, F):
    ck.rule("R15.2", "hand-over without a gap: Serialize for watch::Receiver reads the carried snapshot with "
            "borrow_and_update on the receiver clone that is moved into the forwarder task and touches it with no other "
            "seen-marking call; Deserialize for watch::Sender forwards from the receiver of the channel created with the "
            "carried snapshot",
            "an update landing between taking the snapshot and starting the forwarder is never forwarded: the remote "
            "receiver stays one value behind forever", floor=3)
    ser = [b for k, b in F.bodies.items() if k.startswith("<rch::watch::receiver::Receiver") and k.endswith("Serialize>::serialize")]
    if not ser:
        raise mir.AnchorMissing("Serialize for watch::Receiver")
    b = ser[0]
    agg = [(bb, i, rv) for bb, i, rv in b.aggregates("rch::watch::receiver::TransportedReceiver")]
    if not agg:
        raise mir.AnchorMissing("TransportedReceiver construction")
    bb, i, rv = agg[0]
    data = b.expr(rv["ops"][rv["fields"].index("data")])
    baus = mir.calls_in(data, BAU)
    ok = bool(baus)
    rx_local = None
    if ok:
        t = b.term(baus[0][3])
        # receiver local: &mut rx
        for o in b.origins(t["a"][0]):
            pass
        src = t["a"][0][1][0]
        for d in b.defs.get(src, []):
            if d[0] == "assign" and d[3]["rv"]["r"] == "ref":
                rx_local = d[3]["rv"]["p"][0]
        e_rx = b.expr(["c", [rx_local]]) if rx_local is not None else None
        ok = e_rx is not None and e_rx[0] == "call" and e_rx[1] == "std::clone::Clone::clone" and mir.last_field(e_rx[2][0]) == "rx"
    ck.expect(ok, "Receiver::serialize#snapshot", "data = clone_of(self.rx).borrow_and_update().clone()",
              "the carried snapshot is not read with borrow_and_update on a clone of self.rx", b.loc(bb, i))
    if rx_local is not None:
        # the same local is captured by the callback closure
        captured = False
        child = None
        cap_name = None
        for cb, ci, s in b.assigns():
            if s["rv"]["r"] == "agg" and s["rv"].get("kind") == "closure" and ["m", [rx_local]] in s["rv"]["ops"]:
                captured = True
                child = F.by_dp.get((b.crate, s["rv"]["dp"]))
                j = s["rv"]["ops"].index(["m", [rx_local]])
                cap_name = child.upvars[j] if child is not None and j < len(child.upvars) else None
        # other seen-marking calls on that local in serialize
        marks = [x for x, t in b.calls(MARKING) if any(d[0] == "assign" and d[3]["rv"]["r"] == "ref" and d[3]["rv"]["p"][0] == rx_local
                                                       for a in t["a"][:1] if a[0] != "k" for d in b.defs.get(a[1][0], []))]
        ck.expect(captured and len(marks) == 1, "Receiver::serialize#same-receiver", "that receiver is moved into the forwarder callback; one marking access",
                  f"the marked receiver is not the one handed to the forwarder (captured={captured}, marking calls={len(marks)})", b.loc(bb, i))
        ok = False
        if child is not None:
            for k in [child] + F.children.get((child.crate, child.dp), []):
                for cb2, t in k.calls():
                    if mir.strip_generics(callee(t) or "") == "rch::watch::send_impl":
                        e0 = k.expr(t["a"][0])
                        ok = ok or (e0[0] == "path" and cap_name is not None and e0[1].split(".")[0] == cap_name)
        ck.expect(ok, "Receiver::serialize#forwarder-arg", "send_impl is started with the captured receiver",
                  "send_impl is not given the captured (marked) receiver", b.loc(bb, i))
    de = [x for k, x in F.bodies.items() if k.startswith("<rch::watch::sender::Sender") and k.endswith("::deserialize") and "Deserialize" in k]
    if not de:
        raise mir.AnchorMissing("Deserialize for watch::Sender")
    d = de[0]
    ch = [(bb2, t) for bb2, t in d.calls("tokio::sync::watch::channel")]
    ok = bool(ch) and "data" in mir.show(d.expr(ch[0][1]["a"][0]))
    ck.expect(ok, "Sender::deserialize#channel-from-snapshot", "local watch channel initialised with the carried snapshot",
              "the received sender's channel is not initialised with the carried value", d.loc(0))


def r15_3(ck, F):
    ck.rule("R15.3", "the last value is not abandoned: inside watch::send_impl's forwarding loop no branch on a "
            "tokio::sync::watch::Receiver state query other than changed() (has_changed, borrow().has_changed, same_channel …) "
            "forces the loop to end; the only sender-gone exit is the Err result of changed(), which tokio returns only when no "
            "unseen value is left", "a value sent immediately before the sender is dropped is never forwarded: has_changed() "
            "reports the closed channel before the unseen value", floor=2)
    b = F.main_body("rch::watch::send_impl")
    sels = select_info(b)
    ch = [(s, a) for s in sels for a in s["arms"].values() if a["fut"] == "tokio::sync::watch::Receiver::changed"]
    if not ch:
        raise mir.AnchorMissing("changed() branch of the select in watch::send_impl")
    s, arm = ch[0]
    poll = s["poll_bb"]
    # exit through changed() == Err exists
    errs = [tb for sb, tb, m, e in outcome_edges(b, b.reach([arm["target"]], avoid=[poll]))
            if m == "Err" and poll not in b.reach([tb], avoid=[sb])]
    ck.expect(bool(errs), "send_impl#exit-on-changed-err", "the loop ends when changed() returns Err (sender gone and nothing unseen)",
              "watch::send_impl has no exit on changed() == Err", b.loc(arm["target"]))
    W = "tokio::sync::watch::Receiver::"
    allowed = {W + "changed", W + "borrow_and_update"}
    bad = []
    for sb, tb, m, e in switch_edges(b, lambda e: any(c[1].startswith(W) and c[1] not in allowed for c in mir.calls_in(e)) or
                                     any(c[1].startswith("tokio::sync::watch::Ref::has_changed") for c in mir.calls_in(e))):
        if b.is_cleanup(sb) or poll not in b.reach([sb]) and poll not in b.reach([0], avoid=[sb]):
            continue
        if poll not in b.reach([tb], avoid=[sb]):
            bad.append((sb, sorted({c[1].split("::")[-1] for c in mir.calls_in(e) if "watch" in c[1]})))
    ck.expect(not bad, "send_impl#no-exit-on-state-query", "no forced exit on a watch state query",
              f"watch::send_impl leaves the forwarding loop on {bad[0][1] if bad else ''}: an unseen last value is dropped",
              b.loc(bad[0][0]) if bad else b.loc(0))


def run(ck, F):
    for r in (r15_1, r15_2, r15_3):
        ck.run_rule(r)
    ck.run_rule(c04.r04_3)
    import c06
    ck.run_rule(c06.r06_5)     # the remote receiver's forwarder applies every received value / error and ends only on a final error
