"""C07 — orderly shutdown and reclamation of ports and tasks."""
import mir
from mir import callee
from common import *  # noqa: F401,F403
from robs_common import event_arms

EXPLANATION = (
    "Static rules for port reclamation and termination: R07.1 maybe_free_port removes a port only under a flag built "
    "from exactly the four half-closed conditions (sender_dropped, receiver_dropped, receiver_tx_data.is_none(), "
    "remote_receiver_dropped); R07.2 the port table loses entries only in maybe_free_port and in the PortOpened / "
    "Rejected arms; R07.3 port numbers are linear RAII tokens (PortNumber: Drop releases and wakes waiters, not "
    "Clone/Copy, constructed only by the allocator after inserting into the used set under the limit and freshness "
    "tests, and it is the key / field type wherever a port is owned); R07.4 the termination predicate and the run-loop "
    "guard mention exactly the documented conditions; R07.5 Sender/Receiver/Request drop notifications are straight-line "
    "helper tasks and each half-closed flag is written only in the arm of its own event / message. Task counts after "
    "repeated cycles and termination under every drop order are not decided."
)
ASSUMPTIONS = ["HashMap / HashSet semantics; oneshot closes on drop", "unwind edges ignored"]
NOT_DECIDED = ["number of live tasks after repeated open/close cycles", "both dispatchers finishing under every drop order"]

PA = "chmux::port_allocator"


def r07_1(ck, F):
    ck.rule("R07.1", "maybe_free_port: ports.remove is control-dependent on a flag that is the conjunction of exactly "
            "sender_dropped, receiver_dropped, receiver_tx_data.is_none() and remote_receiver_dropped",
            "the drop order in which the missing condition is the last to become true: the number is reused while the "
            "peer can still reference the port", floor=2)
    b = F.main_body("chmux::mux::ChMux::maybe_free_port")
    rem = [(bb, t) for bb, t in b.calls("std::collections::HashMap::remove") if mir.last_field(b.expr(t["a"][0])) == "ports"]
    if not rem:
        raise mir.AnchorMissing("ports.remove in maybe_free_port")
    atoms, table = bool_function(b, goal={bb for bb, t in rem})
    want = ["sender_dropped", "receiver_dropped", "receiver_tx_data.is_none", "remote_receiver_dropped"]
    ok, msg = same_bool_function(atoms, table, want, lambda v: all(v[a] for a in want))
    ck.expect(ok, "maybe_free_port#conditions", f"ports.remove is reached exactly when all four hold ({msg})",
              f"ports.remove in maybe_free_port is not guarded by exactly sender_dropped && receiver_dropped && "
              f"receiver_tx_data.is_none() && remote_receiver_dropped: {msg}", b.loc(rem[0][0]))
    ck.ok("maybe_free_port#guarded", f"{len(table)} valuations of {atoms} executed", b.loc(rem[0][0]))


def r07_2(ck, F):
    ck.rule("R07.2", "entries leave ChMux.ports only in maybe_free_port and in the PortOpened / Rejected arms of "
            "handle_received_msg", "a port removed while a half still uses it", floor=3)
    sites = []
    for b in F.by_dp.values():
        if b.crate != "remoc" or not b.file.endswith("chmux/mux.rs"):
            continue
        for bb, t in b.calls():
            c = callee(t) or ""
            if c in ("std::collections::HashMap::remove", "std::collections::HashMap::remove_entry", "std::collections::HashMap::clear",
                     "std::collections::HashMap::retain", "std::collections::HashMap::drain") and \
                    mir.last_field(b.expr(t["a"][0])) == "ports":
                sites.append((b, bb, c))
    hr = F.main_body(HANDLE_RECEIVED)
    arms, sw, _ = event_arms(hr, MUX_MSG)
    for b, bb, c in sites:
        p = mir.strip_generics(b.path)
        if p.startswith("chmux::mux::ChMux::maybe_free_port"):
            ok, where = True, "maybe_free_port"
        elif b is hr:
            arm = [v for v, (s, tb, region) in arms.items() if bb in region]
            ok, where = arm in (["PortOpened"], ["Rejected"]), f"handle_received_msg arm {arm}"
        else:
            ok, where = False, p
        ck.expect(ok, f"ports-removal@{where}", f"{c.split('::')[-1]} in {where}", f"ports.{c.split('::')[-1]} in {where}", b.loc(bb))
    ck.expect(len(sites) == 3, "ports-removal#count", "3 removal sites", f"{len(sites)} removal sites (expected 3)", None)


def r07_3(ck, F):
    ck.rule("R07.3", "PortNumber is a linear RAII token: Drop (removes from `used`, wakes waiters), no Clone/Copy; "
            "constructed only in PortAllocatorInner::try_allocate after used.insert under used.len() < limit and "
            "!used.contains(candidate); ChMux.ports is keyed by PortNumber and requests carry PortNumber",
            "two open ports sharing a number / exceeding max_ports; a number released while still in use", floor=10)
    PN = f"{PA}::PortNumber"
    ck.expect(F.has_impl(PN, "std::ops::Drop"), "PortNumber#Drop", "has Drop", "PortNumber has no Drop impl", None)
    for tr in ("std::clone::Clone", "std::marker::Copy", "std::default::Default"):
        ck.expect(not F.has_impl(PN, tr), f"PortNumber#no-{tr.split('::')[-1]}", f"no {tr}", f"PortNumber implements {tr}", None)
    sites = [(b, bb, i) for b in F.by_dp.values() if b.crate == "remoc" for bb, i, rv in b.aggregates(PN)]
    for b, bb, i in sites:
        in_fn = mir.strip_generics(b.path) == f"{PA}::PortAllocatorInner::try_allocate"
        ins = [x for x, t in b.calls("std::collections::HashSet::insert") if mir.last_field(b.expr(t["a"][0])) == "used"]
        after_insert = any(b.dominates(x, bb) for x in ins)
        ce = conds(b, bb)
        avail = any(e[0] == "call" and e[1].endswith("is_available") and m is True for e, m in ce)
        fresh = any(e[0] == "call" and e[1] == "std::collections::HashSet::contains" and m is False for e, m in ce)
        ck.expect(in_fn and after_insert and avail and fresh, f"PortNumber#construct@{mir.strip_generics(b.path)}",
                  "constructed in try_allocate after used.insert, under is_available() and !contains(cand)",
                  f"PortNumber constructed in {b.path} (after insert: {after_insert}, limit test: {avail}, freshness test: {fresh})",
                  b.loc(bb, i))
    ck.expect(len(sites) == 1, "PortNumber#construct-count", "one construction site", f"{len(sites)} construction sites", None)
    av = F.body(f"{PA}::PortAllocatorInner::is_available")
    e = av.expr(["c", [0]])
    ck.expect(e[0] == "bin" and e[1] == "Lt" and "used" in mir.show(e[2]) and "limit" in mir.show(e[3]), "is_available",
              f"{mir.show(e)[:60]}", f"is_available = {mir.show(e)}", av.loc(0))
    d = F.body(f"<{PN} as std::ops::Drop>::drop")
    rm = [bb for bb, t in d.calls("std::collections::HashSet::remove") if mir.last_field(d.expr(t["a"][0])) == "used"]
    tk = [bb for bb, t in d.calls("std::mem::take") if "notify_tx" in mir.show(d.expr(t["a"][0]))]
    sn = [bb for bb, t in d.calls("tokio::sync::oneshot::Sender::send")]
    ck.expect(bool(rm) and bool(tk) and bool(sn), "PortNumber::drop", "removes from used, takes and signals the waiters",
              f"PortNumber::drop: remove={len(rm)} take={len(tk)} signal={len(sn)}", d.loc(0))
    ports_ty = F.adt_fields("chmux::mux::ChMux")["ports"]["ty"]
    ck.expect("HashMap<chmux::port_allocator::PortNumber" in ports_ty, "ChMux.ports#key", "keyed by PortNumber", f"ports: {ports_ty}", None)
    for adt, var, fld in (("chmux::port_allocator::PortReq", None, "port"), ("chmux::client::ConnectRequest", None, "local_port"),
                          ("chmux::mux::PortEvt", "Accepted", "local_port")):
        ty = F.adt_fields(adt, var)[fld]["ty"]
        ck.expect(ty == PN, f"{adt.split('::')[-1]}.{fld}#type", "is a PortNumber", f"{adt}.{fld}: {ty}", None)
    # allocate(): wait registration under the same lock as the failed try, re-try after wake
    al = F.main_body(f"{PA}::PortAllocator::allocate")
    locks = [bb for bb, t in al.calls("std::sync::Mutex::lock")]
    push = [bb for bb, t in al.calls("std::vec::Vec::push") if "notify_tx" in mir.show(al.expr(t["a"][0]))]
    ok = len(locks) == 1 and bool(push) and all(al.dominates(locks[0], p) for p in push)
    for a in al.awaits():
        if a.get("ready_bb") is not None:
            ok = ok and locks[0] in al.reach([a["ready_bb"]])
    ck.expect(ok, "PortAllocator::allocate#no-lost-wakeup", "waiter registered under the lock of the failed attempt; retried after wake",
              "allocate may miss a release (registration not under the same lock / no retry)", al.loc(0))


def r07_4(ck, F):
    ck.rule("R07.4", "termination: should_terminate is the conjunction of ports.is_empty(), (all_clients_dropped | "
            "remote_listener_dropped), (listen_tx.is_none() | remote_client_dropped), "
            "outstanding_remote_port_requests.is_empty(), or-ed with goodbye_sent and goodbye_received; the run loop "
            "ends only on goodbye_sent && goodbye_received && send_task_ended",
            "the dispatcher says Goodbye while a port / request is still live, or never terminates", floor=2)
    b = F.main_body("chmux::mux::ChMux::should_terminate")
    atoms, table = bool_function(b)
    want = ["ports.is_empty", "all_clients_dropped", "remote_listener_dropped.load", "listen_tx.is_none", "remote_client_dropped",
            "outstanding_remote_port_requests.is_empty", "goodbye_sent", "goodbye_received"]
    ok, msg = same_bool_function(
        atoms, table, want,
        lambda v: (v["ports.is_empty"] and (v["all_clients_dropped"] or v["remote_listener_dropped.load"]) and
                   (v["listen_tx.is_none"] or v["remote_client_dropped"]) and v["outstanding_remote_port_requests.is_empty"])
        or v["goodbye_sent"] or v["goodbye_received"])
    ck.expect(ok, "should_terminate", f"should_terminate {msg}",
              f"should_terminate is not (ports empty && (clients dropped || remote listener dropped) && (listener dropped || "
              f"remote client dropped) && no outstanding requests) || goodbye_sent || goodbye_received: {msg}", b.loc(0))
    run = F.main_body("chmux::mux::ChMux::run")
    # loop guard: the switch chain at the loop head mentions exactly these
    heads = sorted({h for _, h in run.back_edges()})
    leaves = set()
    for s in run.reachable:
        if run.term(s)["t"] == "switch":
            e = switch_expr(run, s)
            if e[0] in ("path", "var") and (mir.last_field(e) or e[1]) in ("goodbye_sent", "goodbye_received", "send_task_ended"):
                leaves.add(mir.last_field(e) or e[1])
    ck.expect(leaves == {"goodbye_sent", "goodbye_received", "send_task_ended"}, "run#loop-guard",
              f"loop guard tests {sorted(leaves)}", f"run loop guard tests {sorted(leaves)}", run.loc(0))


def r07_5(ck, F):
    ck.rule("R07.5", "drop notifications: Sender::new / Receiver::new / Request::new each spawn a task that awaits the "
            "struct-owned oneshot and then enqueues SenderDropped / ReceiverDropped / Rejected, with no program loop; each "
            "half-closed flag of PortState::Connected is written only in the arm of its own event or message",
            "a dropped half that never tells the dispatcher (port leaks), or a flag set by the wrong event", floor=7)
    for fn, variant in (("chmux::sender::Sender::new", "SenderDropped"), ("chmux::receiver::Receiver::new", "ReceiverDropped"),
                        ("chmux::listener::Request::new", "Rejected")):
        fam = F.family(fn)
        tasks = [x for x in fam if x.kind == "coroutine" and list(x.aggregates(PORT_EVT, variant))]
        spawned = any((callee(t) or "").endswith("spawn") for bb, t in fam[0].calls())
        ok = len(tasks) == 1 and spawned
        if ok:
            x = tasks[0]
            aw = x.awaits()
            first_is_oneshot = bool(aw) and "oneshot::Receiver" in aw[0].get("fut_ty", "")
            # no program loop: every back edge belongs to an await poll loop (its loop contains a Yield)
            loops_ok = all(any(y in x.loop_blocks(h) for y in x.yields()) for _, h in x.back_edges())
            agg_bb = [bb for bb, i, rv in x.aggregates(PORT_EVT, variant)][0]
            after = bool(aw) and aw[0].get("ready_bb") is not None and agg_bb in x.reach([aw[0]["ready_bb"]])
            ok = first_is_oneshot and loops_ok and after
            # the notification cannot be lost to a full dispatcher queue: it is handed over with an awaited
            # mpsc::Sender::send (which waits for a slot), not with try_send whose Full result would be dropped
            queued = [a for a in aw[1:] if "mpsc" in (a.get("fut_fn") or a.get("fut_ty") or "") and "send" in (a.get("fut_fn") or a.get("fut_ty") or "").lower()]
            tries = [bb for bb, t in x.calls() if (callee(t) or "").endswith("::try_send")]
            ck.expect(bool(queued) and not tries, f"{fn.split('::')[-2]}::new#drop-task-waits-for-slot",
                      f"{variant} is enqueued with an awaited send",
                      f"{fn}: the drop notification {variant} is enqueued without waiting for a queue slot (try_send): when the "
                      f"dispatcher's event queue is full it is silently lost and the peer's request / port never resolves",
                      x.loc(agg_bb))
        ck.expect(ok, f"{fn.split('::')[-2]}::new#drop-task", f"one straight-line task: await oneshot, then enqueue {variant}",
                  f"{fn}: drop notification task missing or not straight-line", fam[0].loc(0))
    he = F.main_body(HANDLE_EVENT)
    hr = F.main_body(HANDLE_RECEIVED)
    # flag stores: through the binding obtained from the match on the port state
    for body, enum, flag_arm in ((he, None, {"sender_dropped": "SenderDropped", "receiver_closed": "ReceiverClosed",
                                              "receiver_dropped": "ReceiverDropped"}),
                                 (hr, MUX_MSG, {"remote_receiver_dropped": "ReceiveFinish"})):
        for bb, i, s in body.assigns():
            if len(s["p"]) < 2 or s["rv"]["r"] != "use" or const_value(body.expr(s["rv"]["o"])) != 1:
                continue
            e = body.expr(["c", [s["p"][0]]])
            fld = mir.last_field(e)
            if fld not in flag_arm:
                continue
            if enum:
                arms, sw, _ = event_arms(body, enum)
                arm = [v for v, (s_, tb, region) in arms.items() if bb in region]
            else:
                arms, sw, _ = event_arms(body, PORT_EVT)
                arm = [v for v, (s_, tb, region) in arms.items() if bb in region]
            ck.expect(arm == [flag_arm[fld]], f"flag-{fld}", f"set only in arm {flag_arm[fld]}",
                      f"`{fld}` is set in arm {arm}", body.loc(bb, i))


def r07_6(ck, F):
    ck.rule("R07.6", "each closing event / message records its half-closed condition and re-evaluates reclamation on every "
            "non-error path through its arm: SenderDropped, ReceiverDropped (handle_event), SendFinish, ReceiveFinish "
            "(handle_received_msg) all pass the flag update and maybe_free_port before returning Ok",
            "receiver closed gracefully and then dropped (ReceiveClose, then ReceiveFinish): the fourth condition is never "
            "recorded, the port entry and its number leak and the dispatcher never terminates", floor=4)
    he = F.main_body(HANDLE_EVENT)
    hr = F.main_body(HANDLE_RECEIVED)
    for body, enum, table in ((he, PORT_EVT, {"SenderDropped": "sender_dropped", "ReceiverDropped": "receiver_dropped"}),
                              (hr, MUX_MSG, {"SendFinish": "receiver_tx_data", "ReceiveFinish": "remote_receiver_dropped"})):
        arms, sw, _ = event_arms(body, enum)
        oks = [bb for bb, i, v in body.result_stores("Ok")]
        frees = {bb for bb, t in body.calls() if mir.strip_generics(callee(t) or "").endswith("ChMux::maybe_free_port")}
        for var, fld in table.items():
            if var not in arms:
                ck.bad(f"{var}#arm", f"no arm for {var}", body.loc(sw))
                continue
            s_, tb, region = arms[var]
            marks = set()
            for bb, i, st in body.assigns():
                if bb in region and len(st["p"]) >= 2 and st["rv"]["r"] == "use" and const_value(body.expr(st["rv"]["o"])) == 1:
                    if mir.last_field(body.expr(["c", [st["p"][0]]])) == fld:
                        marks.add(bb)
            for bb, t in body.calls("std::option::Option::take"):
                if bb in region and fld in mir.show(body.expr(t["a"][0])):
                    marks.add(bb)
            p1 = body.find_path([tb], oks, avoid=marks)
            p2 = body.find_path([tb], oks, avoid=frees)
            ck.expect(bool(marks) and p1 is None and p2 is None, f"{var}#records-and-frees",
                      f"{fld} recorded and maybe_free_port called on every path to Ok",
                      f"arm {var} can return Ok without recording `{fld}` / without calling maybe_free_port "
                      f"(path via {body.loc((p1 or p2)[-2]) if (p1 or p2) and len(p1 or p2) > 1 else ''})", body.loc(tb))


def run(ck, F):
    import c10
    for r in (r07_1, r07_2, r07_3, r07_4, r07_5, r07_6):
        ck.run_rule(r)
    ck.run_rule(c10.r10_2)     # an unanswered request leaks its outstanding entry: shared clause
    ck.run_rule(c10.r10_7)     # an OpenPort that never gets a Request is never answered: neither dispatcher can finish
    import c08
    ck.run_rule(c08.r08_3)     # the reserved slot for the ClientDropped marker: without it an orderly shutdown ends in a protocol error
