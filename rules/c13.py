"""C13 — a mirror of an observable collection equals the collection."""
import json
import os

import mir
from mir import callee
from common import *  # noqa: F401,F403
from robs_common import *  # noqa: F401,F403

EXPLANATION = (
    "Static rules over the type tables and MIR of remoc::robs: R13.1 no raw mutable escape from an observed collection "
    "(Deref without DerefMut/AsMut/BorrowMut; public methods hand out &mut only inside the change-tracking wrappers; "
    "every wrapper's deref_mut sets `changed` and its Drop emits Set when changed; every caller-supplied callable that "
    "receives a &mut element gets it through a wrapper's deref_mut); R13.2 every public method that mutates the inner "
    "std collection constructs an event on a common path with the mutation; R13.3 emit <-> apply sibling agreement: for "
    "each event variant the std mutators used by the emitting methods and by the matching arm of "
    "Mirrored*Inner::handle_event agree, or the pair is listed with a reason in spec/event_equiv.json; handle_event has "
    "no wildcard arm; R13.4 snapshot and subscription are taken in one non-suspending step; R13.5 Done is emitted once "
    "and only the Done arm marks the mirror done. Equality for all operation sequences is not decided."
)
ASSUMPTIONS = [
    "std collection methods behave as documented; a method that takes &mut self of the inner collection and is not in "
    "the NON_MUTATING table is treated as a mutator",
    "spec/event_equiv.json entries were confirmed by reading the code",
]
NOT_DECIDED = ["equality of mirror and collection for all operation sequences (equivalence of the two interpreters)",
               "incremental-mode interleaving of initial items and events"]

VERIF = os.path.dirname(os.path.dirname(os.path.abspath(__file__)))
WRAPPERS = {"RefMut", "IterMut", "Entry", "OccupiedEntry", "VacantEntry"}


def _bodies_in(F, file_suffix):
    return [b for b in F.by_dp.values() if b.crate == "remoc" and b.file.endswith(file_suffix)]


def _root_of(F, b):
    while b.parent_dp and F.parent_body(b) is not None:
        b = F.parent_body(b)
    return b


def r13_1(ck, F):
    ck.rule("R13.1", "no raw mutable escape: observables are Deref but not DerefMut/AsMut/BorrowMut; change-tracking "
            "wrappers set `changed` in deref_mut and emit Set on drop when changed; a caller-supplied callable that "
            "takes a &mut element receives it from a tracking wrapper's deref_mut, never the inner collection's raw "
            "reference",
            "retain(|_, v| { *v += 1; true }) on an observed map: the new values are never reported, mirrors diverge "
            "silently", floor=20)
    for adt, (file, inner, *_rest) in OBSERVABLES.items():
        F.adt(adt)
        short = adt.split("::")[-1]
        if inner is not None:
            ck.expect(F.has_impl(adt, "std::ops::Deref"), f"{short}#Deref", "Deref present", f"{short} has no Deref impl", None)
        for tr in ("std::ops::DerefMut", "std::convert::AsMut", "std::borrow::BorrowMut", "std::ops::IndexMut"):
            ck.expect(not F.has_impl(adt, tr), f"{short}#no-{tr.split('::')[-1]}", f"no {tr} impl",
                      f"{short} implements {tr}: callers get untracked mutable access", None)
        # public methods returning &mut / std iter_mut types
        for f in F.crates["remoc.lib"]["fns"]:
            if f.get("impl_adt") != adt or f["vis"] != "pub":
                continue
            out = f["output"]
            raw = ("&mut " in out or "std::slice::IterMut" in out or "hash_map::IterMut" in out or "vec_deque::IterMut" in out)
            wrapped = any(f"::{w}<" in out for w in WRAPPERS)
            if raw and not wrapped:
                ck.bad(f"{short}::{f['name']}#returns-raw-mut", f"public method returns {out}", f"{f['file']}:{f['line']}")
            elif "mut" in out or wrapped:
                ck.ok(f"{short}::{f['name']}#returns-wrapper", f"returns {out[:80]}", f"{f['file']}:{f['line']}")
    # wrappers: deref_mut marks, drop emits
    n = 0
    for i in F.impls:
        if i["crate"] != "remoc" or i.get("trait") != "std::ops::DerefMut" or not i["file"].endswith(
                ("robs/vec.rs", "robs/vec_deque.rs", "robs/hash_map.rs", "robs/hash_set.rs", "robs/list.rs")):
            continue
        adt = i["self_adt"]
        n += 1
        short = adt.replace("robs::", "")
        b = next((x for x in F.by_dp.values() if x.crate == "remoc" and x.path.startswith(f"<{adt}") and
                  "DerefMut" in x.path and x.path.endswith("::deref_mut")), None)
        if b is None:
            ck.bad(f"{short}#deref_mut", "deref_mut body not found", f"{i['file']}:{i['line']}")
            continue
        marks = [(bb, k) for bb, k, s in b.field_stores("changed")
                 if s["rv"]["r"] == "use" and const_value(b.expr(s["rv"]["o"])) == 1]
        ok = bool(marks) and all(b.dominates(bb, r) for bb, _ in marks[:1] for r in b.returns())
        ck.expect(ok, f"{short}#deref_mut-marks", "deref_mut stores changed = true on every path",
                  f"{short}::deref_mut hands out &mut without setting `changed`", b.loc(0))
        d = next((x for x in F.by_dp.values() if x.crate == "remoc" and x.path.startswith(f"<{adt}") and
                  x.path.endswith("as std::ops::Drop>::drop")), None)
        if d is None:
            ck.bad(f"{short}#drop", f"{short} has DerefMut but no Drop that could emit the change", f"{i['file']}:{i['line']}")
            continue
        sends = [bb for bb, _ in d.calls("robs::send_event")]
        guarded = sends and all(any(mir.last_field(switch_expr(d, s)) == "changed" and switch_meaning(d, s, v) is True
                                    for s, tb, v in controlling_edges(d, bb)) for bb in sends)
        # and the changed==true path cannot skip the send
        sw = [s for s in d.reachable if d.term(s)["t"] == "switch" and mir.last_field(switch_expr(d, s)) == "changed"]
        skip = None
        if sw and sends:
            t = d.term(sw[0])
            true_edges = [x for x in mir.Body.term_succ(t) if x not in [tb for v, tb in t["targets"] if v == "0"]]
            skip = d.find_path(true_edges, d.returns(), avoid=sends)
        ck.expect(bool(guarded) and skip is None, f"{short}#drop-emits", "Drop emits the Set event iff `changed`",
                  f"{short}::drop does not emit an event on every path where `changed` is set", d.loc(0))
    ck.expect(n >= 3, "wrappers#count", f"{n} change-tracking wrappers with DerefMut", f"only {n} wrappers found", None)
    # caller-supplied callables
    n = 0
    for b in F.by_dp.values():
        if b.crate != "remoc" or "/robs/" not in b.file:
            continue
        for bb, t in b.calls({"std::ops::FnMut::call_mut", "std::ops::FnOnce::call_once", "std::ops::Fn::call"}):
            fn = t["fn"]
            st = fn.get("self_ty", "")
            if "closure@" in st or "dyn " in st or st.startswith("std::boxed::Box<dyn"):
                continue    # internal closures and error handlers, not the caller's predicate
            arg = t["a"][1]
            if arg[0] == "k":
                continue
            tty = b.local_ty(arg[1][0])
            if "&mut " not in tty:
                continue
            n += 1
            e = b.expr(arg)
            comps = [x for _, x in e[3]] if e[0] == "agg" else [e]
            comp_tys = [x.strip() for x in tty.strip("()").split(",") if x.strip()]
            for idx, (ce, cty) in enumerate(zip(comps, comp_tys)):
                if not cty.startswith("&mut "):
                    continue
                site = f"{mir.strip_generics(b.path)}#callback-arg{idx}"
                ok = False
                src = mir.show(ce)
                x = ce
                while x[0] == "call" and x[1] in ("std::ops::DerefMut::deref_mut",):
                    tt = b.term(x[3])
                    sty = tt["fn"].get("self_ty", "")
                    if any(f"::{w}<" in sty for w in WRAPPERS) and "robs::" in sty:
                        ok = True
                    break
                ck.expect(ok, site, f"callable gets {cty} from a tracking wrapper ({src[:60]})",
                          f"caller-supplied callable `{st}` receives {cty} = {src[:100]}, not obtained through a "
                          f"change-tracking wrapper: modifications are invisible to subscribers", b.loc(bb),
                          {"function": b.path, "callable": st, "argument": src})
    ck.expect(n >= 2, "callbacks#count", f"{n} caller-supplied callables with &mut element access checked",
              f"only {n} found (expected retain and and_modify of the hash map)", None)


def _groups(F, file):
    groups = {}
    for b in _bodies_in(F, file):
        r = _root_of(F, b)
        groups.setdefault(r.dp, (r, []))[1].append(b)
    return groups


def r13_2(ck, F):
    ck.rule("R13.2", "every public method of an observable (or of its entry/iterator wrappers) that calls a mutating "
            "method of the inner std collection constructs an event of the collection's event enum (or hands the element "
            "out inside a tracking wrapper) on a common path with the mutation",
            "any mutator that forgets its event: the mirror silently diverges", floor=39)
    for adt, (file, inner, ev, mirror_inner, sub, mirrored) in OBSERVABLES.items():
        if inner is None:
            continue
        for dp, (root, bodies) in sorted(_groups(F, file).items()):
            f = F.fns.get(root.path) or F.fns.get(mir.strip_generics(root.path))
            if f is None:
                continue
            owner = f.get("impl_adt") or ""
            if owner in (mirror_inner, mirrored, sub) or "Mirrored" in owner or "Subscription" in owner or "InitialValue" in owner:
                continue
            if not (owner == adt or owner.split("::")[-1] in WRAPPERS):
                continue
            muts = [(b, bb, c) for b in bodies for bb, c in std_mutators(b, {inner, "inner"})]
            if not muts:
                continue
            if f["name"] in ("into_inner", "from", "default", "new", "drop", "into_key"):
                continue
            site = f"{mir.strip_generics(root.path)}"
            events = [(b, bb) for b in bodies for bb, i, rv in b.aggregates(ev)]
            wraps = [(b, bb) for b in bodies for bb, i, rv in b.aggregates()
                     if rv["adt"].split("::")[-1] in WRAPPERS and rv["adt"].startswith("robs::")]
            delegates = [(b, bb) for b in bodies for bb, t in b.calls()
                         if (callee(t) or "").startswith(adt + "::") and t["fn"].get("recv") == "mut"]
            if not events and not wraps and not delegates:
                ck.bad(site + "#emits", f"mutates the inner collection via {sorted({c.split('::')[-1] for _, _, c in muts})} "
                       f"but constructs no event", root.loc(0))
                continue
            # common path: for each mutator some event construction in the same body is reachable from it or reaches it
            bad = []
            for b, bb, c in muts:
                evs = [e for eb, e in events + wraps + delegates if eb is b]
                if not evs:
                    # event constructed in a sibling closure/parent of the same method: accept at method level
                    continue
                if not any(e in b.reach([bb]) or bb in b.reach([e]) for e in evs):
                    bad.append((b, bb, c))
            ck.expect(not bad, site + "#emits",
                      f"{len(muts)} mutation(s) {sorted({c.split('::')[-1] for _, _, c in muts})} each share a path with an event",
                      f"mutation {[c for _, _, c in bad]} lies only on paths without any event construction",
                      root.loc(0) if not bad else bad[0][0].loc(bad[0][1]))


def emit_apply_tables(F):
    """{event variant path: {'emit': sorted mutator names, 'apply': sorted mutator names}}"""
    table = {}
    for adt, (file, inner, ev, mirror_inner, sub, mirrored) in OBSERVABLES.items():
        if inner is None:
            continue    # the list emits from its distributor task (C14 R14.5), not from mutator methods
        emit = {}
        for dp, (root, bodies) in _groups(F, file).items():
            f = F.fns.get(root.path) or F.fns.get(mir.strip_generics(root.path))
            owner = (f or {}).get("impl_adt") or ""
            if "Mirrored" in owner or "Subscription" in owner or "InitialValue" in owner:
                continue
            vs = {rv["variant"] for b in bodies for bb, i, rv in b.aggregates(ev)}
            if not vs:
                continue
            names = {c.split("::")[-1] for b in bodies for bb, c in std_mutators(b, {inner, "inner"})}
            for v in vs:
                emit.setdefault(v, set()).update(names)
        hb = F.body(f"{mirror_inner}::handle_event")
        arms, sw, _ = event_arms(hb, ev)
        muts = std_mutators(hb, {inner})
        for v, (s, tb, region) in arms.items():
            ap = {c.split("::")[-1] for bb, c in muts if bb in region}
            table[f"{ev}::{v}"] = {"emit": sorted(emit.get(v, set())), "apply": sorted(ap)}
    return table


def r13_3(ck, F):
    ck.rule("R13.3", "emit <-> apply: per event variant, the std mutators of the emitting methods and of the matching "
            "handle_event arm are the same functions, or the pair is listed with a reason in spec/event_equiv.json; "
            "handle_event matches every variant explicitly",
            "an event applied with a different operation than the one that produced it (e.g. SwapRemove applied as "
            "Remove): mirror contents differ after that event", floor=40)
    spec = json.load(open(os.path.join(VERIF, "spec", "event_equiv.json")))
    table = emit_apply_tables(F)
    for key, pair in sorted(table.items()):
        if pair["emit"] == pair["apply"]:
            ck.ok(key, f"emitted and applied with {pair['emit'] or 'no std mutator'}", None, nontrivial=bool(pair["emit"]))
            continue
        sp = spec.get(key)
        ck.expect(sp is not None and sp["emit"] == pair["emit"] and sp["apply"] == pair["apply"], key,
                  f"emit {pair['emit']} / apply {pair['apply']} as listed: {sp['reason'] if sp else ''}",
                  f"emitting methods use {pair['emit']} but the mirror applies {pair['apply']}"
                  + (f" (spec lists emit {sp['emit']} / apply {sp['apply']})" if sp else " (not listed in spec/event_equiv.json)"), None)
    for adt, (file, inner, ev, mirror_inner, sub, mirrored) in OBSERVABLES.items():
        hb = F.body(f"{mirror_inner}::handle_event")
        arms, sw, exhaustive = event_arms(hb, ev)
        variants = [v["name"] for v in F.adt(ev)["variants"]]
        ck.expect(exhaustive and sorted(arms) == sorted(variants), f"{mirror_inner.split('::')[-1]}::handle_event#exhaustive",
                  f"all {len(variants)} variants have their own arm, no wildcard",
                  f"handle_event arms {sorted(arms)} do not cover {sorted(variants)} explicitly", hb.loc(sw))


def _strip_conv(e):
    """Look through clone / borrow / conversions / casts: the value an operand carries."""
    while True:
        e = mir.strip_casts(e)
        if isinstance(e, tuple) and e and e[0] == "call" and e[2] and \
                e[1].split("::")[-1] in ("clone", "borrow", "to_owned", "into", "as_ref", "deref", "from"):
            e = e[2][0]
            continue
        return e


def _region_exprs(b, region):
    """Expression trees of everything a region computes with: call arguments, assigned rvalues, aggregate operands."""
    for bb in region:
        for st in b.stmts(bb):
            rv = st.get("rv") if isinstance(st, dict) else None
            if not rv:
                continue
            for o in ([rv.get("o")] if rv.get("o") else []) + [rv.get("a"), rv.get("b")] + list(rv.get("ops", [])):
                if o:
                    yield b.expr(o)
            if rv.get("p"):
                yield b.expr(rv["p"])
        t = b.term(bb)
        if t["t"] == "call":
            for a in t["a"]:
                yield b.expr(a)
        elif t["t"] == "switch" and t["o"][0] != "k":
            yield b.expr(t["o"])


def r13_3b(ck, F):
    ck.rule("R13.3b", "emit <-> apply argument agreement: where an emitting method passes the same value both to a std "
            "mutator of the observed collection (argument j) and into the event (field i), the mirror's arm applies the "
            "same std mutator with argument j taken from field i unchanged; and every field of an event is consumed by "
            "its handle_event arm",
            "an event whose index / length / value is applied at another position than it was produced for (Insert(i, v) "
            "applied as insert(i + 1, v), Truncate(n) emitted with the old length, a field ignored by the arm): the mirror "
            "differs after the first such event", floor=30)
    for adt, (file, inner, ev, mirror_inner, sub, mirrored) in OBSERVABLES.items():
        if inner is None:
            continue
        hb = F.body(f"{mirror_inner}::handle_event")
        arms, sw, _ = event_arms(hb, ev)
        hm = std_mutators(hb, {inner})
        short = adt.split("::")[-1]
        # (c) every field of a variant is consumed in its arm
        for v in F.adt(ev)["variants"]:
            if v["name"] not in arms or not v["fields"]:
                continue
            region = arms[v["name"]][2]
            paths = set()
            for e in _region_exprs(hb, region):
                paths.update(mir.paths_in(e))
            for i, fld in enumerate(v["fields"]):
                pref = f"event.@{v['name']}.{fld.get('name', i) if isinstance(fld, dict) else i}"
                used = any(p == pref or p.startswith(pref + ".") for p in paths)
                ck.expect(used, f"{mirror_inner.split('::')[-1]}::{v['name']}#field{i}-used",
                          f"field {i} of {v['name']} is consumed by the arm",
                          f"the {v['name']} arm of {mirror_inner}::handle_event never uses field {i} of the event", hb.loc(arms[v['name']][1]))
        # (a)+(b) argument correspondence for identical std mutators
        for dp, (root, bodies) in sorted(_groups(F, file).items()):
            f = F.fns.get(root.path) or F.fns.get(mir.strip_generics(root.path))
            owner = (f or {}).get("impl_adt") or ""
            if "Mirrored" in owner or "Subscription" in owner or "InitialValue" in owner:
                continue
            for b in bodies:
                ms = std_mutators(b, {inner, "inner"})
                for ebb, ei, rv in b.aggregates(ev):
                    if rv["variant"] not in arms:
                        continue
                    fe = [_strip_conv(b.expr(o)) for o in rv["ops"]]
                    region = arms[rv["variant"]][2]
                    for mb, c in ms:
                        mm = [xb for xb, c2 in hm if xb in region and c2 == c]
                        if not mm:
                            continue
                        ae = [_strip_conv(b.expr(a)) for a in b.term(mb)["a"][1:]]
                        pairs = [(i, j) for i, x in enumerate(fe) for j, y in enumerate(ae)
                                 if x[0] not in ("const", "constdef") and mir.same_value(x, y)]
                        site = f"{mir.strip_generics(b.path)}#{rv['variant']}-{c.split('::')[-1]}"
                        # emit side: every argument of the mutator that the mirror takes from a field must be that field here
                        for xb in mm:
                            margs = [_strip_conv(hb.expr(a)) for a in hb.term(xb)["a"][1:]]
                            for j, me in enumerate(margs):
                                src = mir.show(me)
                                fields_used = [i for i in range(len(fe)) if src == f"event.@{rv['variant']}.{i}"]
                                want = [i for i, jj in pairs if jj == j]
                                if want:
                                    ck.expect(fields_used == want[:1] or (fields_used and fields_used[0] in want), f"{site}#arg{j}",
                                              f"{c.split('::')[-1]} argument {j} = event field {want[0]} on both sides",
                                              f"{short}: the emitting method passes the same value as argument {j} of {c} and as field "
                                              f"{want[0]} of {rv['variant']}, but the mirror applies {c.split('::')[-1]} with argument {j} = {src}",
                                              hb.loc(xb), {"emit": b.loc(mb), "event": b.loc(ebb, ei)})
                                elif fields_used and j < len(ae):
                                    # the mirror feeds field i into argument j, but the emitter's field i is not its own argument j
                                    i = fields_used[0]
                                    if fe[i][0] in ("const", "constdef") or ae[j][0] in ("const", "constdef", "agg", "fn"):
                                        continue
                                    if mir.calls_in(fe[i]) or mir.calls_in(ae[j]):
                                        # e.g. Resize(self.v.len(), ..) sent after the resize: equal by a fact about the
                                        # collection that this rule does not derive
                                        ck.inconclusive(f"{site}#arg{j}", f"event field {i} = {mir.show(fe[i])[:50]} and mutator argument "
                                                        f"{j} = {mir.show(ae[j])[:50]} are computed values; equality not decided", b.loc(ebb, ei))
                                        continue
                                    ck.bad(f"{site}#arg{j}",
                                           f"{short}: the mirror applies {c.split('::')[-1]} with argument {j} = field {i} of {rv['variant']}, but "
                                           f"the emitting method passes {mir.show(ae[j])[:60]} to the mutator and {mir.show(fe[i])[:60]} into the event",
                                           b.loc(ebb, ei), {"emit": b.loc(mb), "apply": hb.loc(xb)})


def r13_4(ck, F):
    ck.rule("R13.4", "snapshot and event subscription are taken together: Observable*::subscribe / "
            "subscribe_incremental are non-async &self methods that clone the contents and subscribe to the event "
            "sender; Mirrored*::subscribe does both between acquiring and releasing one read guard without suspending",
            "a mutation between snapshot and subscription is in neither: the mirror misses it forever", floor=12)
    for adt, (file, inner, ev, mirror_inner, sub, mirrored) in OBSERVABLES.items():
        if inner is None:
            continue
        short = adt.split("::")[-1]
        for m in ("subscribe", "subscribe_incremental"):
            f = F.fn(f"{adt}::{m}")
            b = F.body(f"{adt}::{m}")
            ok_sig = (not f["async"]) and f["inputs"][0].startswith("&") and "mut" not in f["inputs"][0].split(" ")[0]
            clones = [bb for bb, t in b.calls() if (callee(t) or "").endswith("::clone") and
                      mir.last_field(b.expr(t["a"][0])) == inner]
            subs = [bb for bb, t in b.calls("rch::broadcast::sender::Sender::subscribe")] + \
                   [bb for bb, t in b.calls("rch::broadcast::Sender::subscribe")]
            ck.expect(ok_sig and clones and subs and not b.yields(), f"{short}::{m}",
                      "non-async &self; clones contents and subscribes in one step",
                      f"{short}::{m}: async={f['async']} self={f['inputs'][0]} clones={len(clones)} subscribes={len(subs)}",
                      b.loc(0))
        for m in ("subscribe", "subscribe_incremental"):
            b = F.main_body(f"{mirrored}::{m}")
            coll = ("std::vec::Vec<", "std::collections::VecDeque<", "std::collections::HashMap<", "std::collections::HashSet<")
            clones = [bb for bb, t in b.calls("std::clone::Clone::clone") if t["fn"].get("self_ty", "").startswith(coll)]
            subs = [bb for bb, t in b.calls() if (callee(t) or "").endswith("Sender::subscribe")]
            ys = set(b.yields())
            ok = bool(clones) and bool(subs)
            guard_ok = False
            if ok:
                c, s_ = clones[0], subs[0]
                first, second = (c, s_) if s_ in b.reach([c]) else (s_, c)
                # no suspension point on any path from the first to the second
                ok = b.find_path([first], [second], avoid=()) is not None and \
                    not any(y in b.reach([first], avoid=[second]) and second in b.reach([y]) for y in ys)
                # the cloned view is a read guard that is still alive at the second step
                e = b.expr(b.term(c)["a"][0])
                guards = [x for x in mir.walk(e) if isinstance(x, tuple) and x and x[0] in ("try", "await")]
                guard_ok = bool(guards)
            ck.expect(ok and guard_ok, f"{mirrored.split('::')[-1]}::{m}",
                      "contents cloned from the borrowed (read-locked) view and subscription taken with no suspension between",
                      f"{mirrored}::{m}: clones={len(clones)} subscribes={len(subs)}; not both under one borrowed view "
                      f"without a Yield in between", b.loc(0))


def r13_5(ck, F):
    ck.rule("R13.5", "done() emits Done and sets the flag only when the flag was clear; only the Done arm of the "
            "mirror's handle_event sets `done`",
            "completion reported although the collection is still changing (or never reported)", floor=9)
    for adt, (file, inner, ev, mirror_inner, sub, mirrored) in OBSERVABLES.items():
        short = adt.split("::")[-1]
        if inner is not None:
            b = F.body(f"{adt}::done")
            dones = [(bb, i) for bb, i, rv in b.aggregates(ev, "Done")]
            stores = [(bb, i) for bb, i, s in b.field_stores("done")]
            ok = bool(dones) and bool(stores)
            for bb, i in dones + stores:
                ce = conds(b, bb)
                ok = ok and any(mir.last_field(e) == "done" and m is False for e, m in ce)
            ck.expect(ok, f"{short}::done", "Done emitted and flag set under !self.done",
                      f"{short}::done does not guard the Done event / flag with !self.done", b.loc(0))
        hb = F.body(f"{mirror_inner}::handle_event")
        arms, sw, _ = event_arms(hb, ev)
        stores = [bb for bb, i, s in hb.field_stores("done")]
        ok = bool(stores) and all(bb in arms["Done"][2] for bb in stores)
        ck.expect(ok, f"{mirror_inner.split('::')[-1]}#done-only-in-Done-arm", "`done` set only in the Done arm",
                  "`done` is set outside the Done arm (or never)", hb.loc(sw))


def r13_6(ck, F):
    ck.rule("R13.6", "event order inside one operation: where a method both holds a change-tracking wrapper (whose Drop "
            "may emit Set) and emits an event itself, the wrapper has been consumed (moved into drop / out of the local) "
            "on every path before that event is sent whenever its scope-end Drop is still reachable afterwards",
            "retain(|k, v| ..) rejecting an entry: Remove(k) is followed by a late Set(k, v) from the wrapper's Drop and "
            "every mirror re-inserts the removed entry", floor=1)
    n = 0
    for b in F.by_dp.values():
        if b.crate != "remoc" or "/robs/" not in b.file:
            continue
        wl = [i for i, l in enumerate(b.locals) if any(f"::{w}<" in l["ty"] for w in ("RefMut",)) and "robs::" in l["ty"]
              and not l["ty"].startswith("&")]
        sends = [bb for bb, t in b.calls("robs::send_event")]
        if not wl or not sends:
            continue
        for l in wl:
            drops = [bb for bb in b.reachable if b.term(bb)["t"] == "drop" and b.term(bb)["p"] == [l]]
            moves = {bb for bb in b.moves_of(l) if b.term(bb)["t"] != "drop"}
            for sb in sends:
                late = [d for d in drops if d in b.reach([sb], include_start=False)]
                if not late:
                    continue
                n += 1
                consumed = any(b.dominates(m, sb) for m in moves)
                ck.expect(consumed, f"{mir.strip_generics(b.path)}#wrapper-before-event",
                          "the tracking wrapper is consumed before the explicit event is sent",
                          f"a {b.local_ty(l).split('<')[0].split('::')[-1]} wrapper is still alive when send_event is called at "
                          f"{b.loc(sb)}; its Drop at {b.loc(late[0])} can emit a Set after that event", b.loc(sb))
    ck.expect(n >= 1, "wrapper-before-event#sites", f"{n} site(s)", "no method combining a tracking wrapper with an explicit event found", None)


def r13_7(ck, F):
    ck.rule("R13.7", "a mirror does not start (or stop) as `done` while its initial value is incomplete: in "
            "*Subscription::mirror the initial `done` flag of the mirror state is not the bare is_done() of the "
            "subscription, or the task's stop-on-done is additionally guarded by completeness",
            "collection marked done(), then subscribe_incremental().mirror(): the mirror starts done, applies the first "
            "initial element and stops — it holds one element, reports done and no error", floor=4)
    for adt, (file, inner, ev, mirror_inner, sub, mirrored) in OBSERVABLES.items():
        if inner is None:
            continue
        b = F.body(f"{sub}::mirror")
        aggs = [(bb, i, rv) for bb, i, rv in b.aggregates(mirror_inner)]
        if not aggs:
            raise mir.AnchorMissing(f"{mirror_inner} construction in {sub}::mirror")
        bb, i, rv = aggs[0]
        e = b.expr(rv["ops"][rv["fields"].index("done")])
        # the flag's value must depend on completeness of the initial value (directly or through is_complete())
        involves_complete = any("complete" in x.split(".")[-1] for x in mir.paths_in(e)) or \
            any("is_complete" in c[1] for c in mir.calls_in(e))
        bare = not involves_complete
        task = F.bodies.get(f"{sub}::mirror::{{closure#0}}")
        guard_ok = False
        if task is not None:
            for s in task.reachable:
                t = task.term(s)
                if t["t"] == "switch" and mir.last_field(switch_expr(task, s)) == "done":
                    true_t = [x for x in mir.Body.term_succ(t) if x not in [tb for v, tb in t["targets"] if v == "0"]]
                    # is the done-exit control dependent on `complete` as well?
                    for sw, tb2, v2 in controlling_edges(task, s):
                        if mir.last_field(switch_expr(task, sw)) == "complete":
                            guard_ok = True
                    for x in true_t:
                        for sw in task.reach([x]):
                            tt = task.term(sw)
                            if tt["t"] == "switch" and mir.last_field(switch_expr(task, sw)) == "complete" and \
                                    task.dominates(x, sw):
                                guard_ok = True
        ck.expect((not bare) or guard_ok, f"{sub.split('::')[-1]}::mirror#done-needs-complete",
                  f"initial done = {mir.show(e)[:60]}" + (" (stop guarded by complete)" if guard_ok else ""),
                  f"the mirror starts with done = is_done() although the initial value may be incomplete, and its task stops as "
                  f"soon as `done` is set: an incremental subscription taken after done() yields a truncated mirror", b.loc(bb, i))


def r13_8(ck, F):
    ck.rule("R13.8", "a mirror relays every event it receives: in each *Subscription::mirror task the relay to the mirror's own "
            "subscribers (broadcast send, decided by receiver_count()) happens before the event is applied and before any exit "
            "of that iteration — in particular the Done event is relayed although the task stops after applying it",
            "a subscription taken from a mirror before the observed collection is done, then done(): the relay is skipped on "
            "the iteration that ends the task, the second-level mirror never reports completion (and reports Closed when the "
            "first mirror is dropped)", floor=4)
    for adt, (file, inner, ev, mirror_inner, sub, mirrored) in OBSERVABLES.items():
        if inner is None:
            continue        # MirroredList has no subscribe(): its task relays nothing
        task = F.bodies.get(f"{sub}::mirror::{{closure#0}}")
        if task is None:
            cands = [b for k, b in F.bodies.items() if k.startswith(f"{sub}::mirror::") and b.kind == "coroutine"]
            task = cands[0] if cands else None
        if task is None:
            raise mir.AnchorMissing(f"mirror task of {sub}")
        he = [bb for bb, t in task.calls() if (callee(t) or "").endswith("::handle_event")]
        sends = [bb for bb, t in task.calls() if (callee(t) or "").endswith("broadcast::sender::Sender::send") or
                 (callee(t) or "") == "rch::broadcast::Sender::send"]
        short = sub.split("::")[-1]
        if not he or not sends:
            ck.bad(f"{short}::mirror#relay-before-apply", f"{sub}::mirror: relay send ({len(sends)}) or handle_event ({len(he)}) not found",
                   task.loc(0))
            continue
        polls = [a["poll_bb"] for a in task.awaits() if a.get("poll_bb") is not None]
        late = [s_ for s_ in sends if any(s_ in task.reach([h], avoid=polls, include_start=False) for h in he)]
        # every path from the start of the iteration's event handling to handle_event passes the relay decision
        guards = [s_ for s_ in task.reachable if task.term(s_)["t"] == "switch" and
                  any(c[1].endswith("::receiver_count") for c in mir.calls_in(switch_expr(task, s_)))]
        decided_first = all(any(task.dominates(g, h) for g in guards + sends) for h in he)
        ck.expect(not late and decided_first, f"{short}::mirror#relay-before-apply",
                  "the relay (receiver_count() guard + send) precedes handle_event on every path",
                  f"{sub}::mirror relays an event only after applying it" + (f" (send at {task.loc(late[0])} follows handle_event)" if late else
                                                                            " (handle_event is reachable without the relay decision)")
                  + ": an event that ends the task (Done) or fails to apply is never relayed to the mirror's subscribers",
                  task.loc(he[0]))


PANICKING_MUTATORS = ("std::vec::Vec::insert", "std::vec::Vec::remove", "std::vec::Vec::swap_remove", "std::vec::Vec::split_off",
                      "std::vec::Vec::drain", "std::collections::VecDeque::insert", "std::collections::VecDeque::split_off",
                      "std::collections::VecDeque::drain", "std::collections::VecDeque::swap")


def r13_9(ck, F):
    ck.rule("R13.9", "no event for an operation that did not happen: where an observable's method applies a std operation that "
            "panics on an out-of-range argument (Vec::insert / remove / swap_remove, VecDeque::insert, ...), the event is sent "
            "only after that operation returned (the mutator call dominates send_event)",
            "remove(index >= len) panics after its Remove(index) event went out and the collection lives on (panic caught, "
            "non-poisoning lock): mirrors fail with InvalidIndex or apply a removal that never happened", floor=3)
    n = 0
    for adt, (file, inner, ev, mirror_inner, sub, mirrored) in OBSERVABLES.items():
        if inner is None:
            continue
        for dp, (root, bodies) in sorted(_groups(F, file).items()):
            f = F.fns.get(root.path) or F.fns.get(mir.strip_generics(root.path))
            owner = (f or {}).get("impl_adt") or ""
            if owner != adt:
                continue
            for b in bodies:
                muts = [(bb, c) for bb, c in std_mutators(b, {inner}) if c in PANICKING_MUTATORS]
                sends = [bb for bb, t in b.calls("robs::send_event")]
                for mb, c in muts:
                    for sb in sends:
                        n += 1
                        ck.expect(b.dominates(mb, sb), f"{mir.strip_generics(b.path)}#{c.split('::')[-1]}-before-event",
                                  f"{c.split('::')[-1]} returns before the event is sent",
                                  f"{mir.strip_generics(b.path)} sends its event at {b.loc(sb)} before {c} (which panics on an "
                                  f"out-of-range argument) has been applied at {b.loc(mb)}", b.loc(sb))
    ck.expect(n >= 3, "panicking-mutators#sites", f"{n} (operation, event) pairs", f"only {n} pairs found", None)


def r13_10(ck, F):
    import re
    ck.rule("R13.10", "derived wire indices agree: for every enum of the crate with derived Serialize and Deserialize (the event "
            "enums of all observable collections among them) the set of variant indices the serializer emits equals the set the "
            "deserializer's field visitor accepts — serde numbers a `#[serde(skip)]` variant when serializing but not when "
            "deserializing, so a skipped variant must come after every transmitted one",
            "ListEvent reordered to Push, InitialComplete (skipped), Done: with an index-based codec Done is sent as index 2 and "
            "rejected by the subscriber — every element arrives but completion is never reported (name-based codecs hide it)",
            floor=40)
    ser, de = {}, {}
    for k, b in F.bodies.items():
        if b.crate != "remoc":
            continue
        m = re.search(r"impl (?:[\w:]+::)?Serialize for ([\w:]+)(?:<.*>)?>::serialize$", k)
        if m:
            idx = set()
            for bb, t in b.calls():
                if re.search(r"serialize_(unit|newtype|tuple|struct)_variant$", callee(t) or "") and len(t["a"]) > 2:
                    v = const_value(b.expr(t["a"][2]))
                    if v is not None:
                        idx.add(v)
            if idx:
                ser[m.group(1)] = (idx, b)
        if k.endswith("visit_u64") and "__FieldVisitor" in k:
            m = re.search(r"Deserialize<'de> for ([\w:]+)(?:<.*?>)?>::deserialize::__FieldVisitor", k)
            if m:
                vals = set()
                for s_ in b.reachable:
                    t = b.term(s_)
                    if t["t"] == "switch" and t["ty"] == "u64":
                        vals |= {int(v) for v, _ in t["targets"]}
                de.setdefault(m.group(1), set()).update(vals)
    n = 0
    for adt, (idx, b) in sorted(ser.items()):
        if adt not in de:
            continue        # serialize-only enum
        n += 1
        ck.expect(idx == de[adt], adt.replace("::", "_") + "#wire-indices", f"indices {sorted(idx)} on both sides",
                  f"{adt}: the derived serializer emits variant indices {sorted(idx)} but the derived deserializer accepts "
                  f"{sorted(de[adt])}: a skipped variant precedes a transmitted one (or the two derives disagree)", b.loc(0))
    for adt, (file, inner, ev, mirror_inner, sub, mirrored) in OBSERVABLES.items():
        ck.expect(ev in ser and ev in de, ev.split("::")[-1] + "#derives-found", "event enum has both derives in the fact base",
                  f"the derived Serialize / Deserialize of {ev} were not found", None)


def run(ck, F):
    for r in (r13_1, r13_2, r13_3, r13_3b, r13_4, r13_5, r13_6, r13_7, r13_8, r13_9, r13_10):
        ck.run_rule(r)


if __name__ == "__main__":
    import sys
    sys.path.insert(0, os.path.dirname(os.path.abspath(__file__)))
    import extract
    F = mir.Facts(extract.extract(verbose=False))
    print(json.dumps({k: v for k, v in emit_apply_tables(F).items() if v["emit"] != v["apply"]}, indent=1))
