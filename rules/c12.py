"""C12 — remote calls run at most once, answer their own caller, mutate atomically."""
import re

import mir
from mir import callee
from common import *  # noqa: F401,F403
from rtc_common import *  # noqa: F401,F403

THOROUGH_CONFIGS = ["full-codecs", "json-codec", "tests"]

EXPLANATION = (
    "Static MIR rules over the expansion of #[remoc::rtc::remote] (witness crate; test traits in the thorough tier) and "
    "over remoc::rfn: R12.1 each received request is dispatched exactly once (no second dispatch reachable before the "
    "next receive; the dispatched request is the one just received) and function providers call the function once per "
    "request and answer on that request's result channel; R12.2 every generated client method creates a fresh oneshot "
    "channel, moves its sender into the request's __reply_tx and awaits the receiver of the same pair; R12.3 replying "
    "consumes the reply sender (by-value self); R12.4 in ServerSharedMut the &mut target of a mutable request derives "
    "from the write guard of the target lock and the & target of a shared request from a read guard; the generated code "
    "contains no unsafe block. Linearizability of concurrent histories and behaviour under faults are not decided."
)
ASSUMPTIONS = [
    "tokio::sync::RwLock provides reader/writer exclusion; rch::oneshot delivers at most one value",
    "the witness traits cover the shapes the generator distinguishes",
    "in the non-shared server flavours exclusivity of &mut target is the borrow checker's",
]
NOT_DECIDED = ["linearizability of concurrent call histories", "behaviour under connection faults (at-most-once under loss rests on C04/C06)"]


def r12_1(ck, F):
    ck.rule("R12.1", "one dispatch per request: in every generated serve loop no second Req::dispatch is reachable from a "
            "dispatch call before the next request receive, and the dispatched value is the request just received; rfn "
            "providers call the function once per request with that request's argument and answer on its result_tx",
            "a request executed twice (or a reply sent on another request's channel)", floor=12)
    for b, flavour in serve_coroutines(F):
        site = short(b.path)
        fam = [b] + [k for k in F.children.get((b.crate, b.dp), [])]
        sel = [a for a in b.awaits() if "PollFn" in (a.get("fut_fn") or "") or "PollFn" in a.get("fut_ty", "")]
        sel_blocks = {a["poll_bb"] for a in sel}
        n = 0
        for x in fam:
            disp = [(bb, t) for bb, t in x.calls() if (callee(t) or "").endswith("::dispatch") and t["fn"].get("local")]
            for bb, t in disp:
                n += 1
                others = {o for o, _ in disp if o != bb}
                p = x.find_path([bb], others, avoid=sel_blocks if x is b else (), from_succ=True)
                req = x.expr(t["a"][0])
                from_recv = "poll_fn" in mir.show(req) or (req[0] == "path" and req[1].split(".")[0] == "req")
                ck.expect(p is None and from_recv, f"{site}#dispatch{n}",
                          "dispatched once, on the request obtained from this iteration's receive",
                          f"dispatch at {x.loc(bb)} can be followed by another dispatch before the next receive, or "
                          f"dispatches {mir.show(req)[:80]}", x.loc(bb))
        ck.expect(n >= 1, f"{site}#has-dispatch", f"{n} dispatch call(s)", "serve loop without dispatch", b.loc(0))
    # rfn providers
    for mod in ("rfn::rfn_const::RFn", "rfn::rfn_mut::RFnMut", "rfn::rfn_once::RFnOnce"):
        fam = F.family(f"{mod}::provided_int")
        calls = []
        sends = []
        for x in fam:
            for bb, t in x.calls(("std::ops::Fn::call", "std::ops::FnMut::call_mut", "std::ops::FnOnce::call_once")):
                if t["fn"].get("self_ty", "") in ("F", "&F", "&mut F") or t["fn"].get("args", [""])[0] in ("F",):
                    calls.append((x, bb, t))
            for bb, t in x.calls("rch::oneshot::sender::Sender::send"):
                sends.append((x, bb, t))
        name = mod.split("::")[-1]
        ok = len(calls) == 1 and len(sends) == 1
        if ok:
            x, bb, t = calls[0]
            arg = mir.field_leaves(x.expr(t["a"][1])) + mir.paths_in(x.expr(t["a"][1]))
            sx, sbb, st = sends[0]
            rtx = mir.show(sx.expr(st["a"][0]))
            ok = "argument" in arg and "result_tx" in rtx
            # not inside a loop that does not receive: from the call no path back to the call without a receive await
            recv_blocks = {a["yield_bb"] for a in x.awaits()} | {bb2 for bb2, _ in x.calls("std::future::poll_fn")}
            again = x.find_path([bb], [bb], avoid=recv_blocks, from_succ=True)
            ok = ok and again is None
        ck.expect(ok, f"{name}::provided_int", "function called once per request with its argument, answered on its result_tx",
                  f"{name}::provided_int: calls={len(calls)} sends={len(sends)} or wrong argument/result channel",
                  fam[0].loc(0))


def r12_2(ck, F):
    ck.rule("R12.2", "per-call reply channel: each generated client method calls oneshot::channel(), moves .0 into the "
            "request's __reply_tx and finally awaits .1 of the same channel call",
            "two concurrent calls sharing a reply channel: a caller receives another call's result", floor=8)
    n = 0
    for b in user_bodies(F):
        if b.kind != "coroutine" or "Client<" not in b.path or not b.path.startswith("<") or "::{closure#0}" not in b.path \
                or b.path.count("{closure") != 1:
            continue
        chans = [bb for bb, t in b.calls("remoc::rch::oneshot::channel")]
        reqs = [(bb, i, rv) for bb, i, rv in b.aggregates() if "__reply_tx" in rv.get("fields", [])]
        if not reqs:
            continue
        n += 1
        site = short(b.path)
        ok = len(chans) == 1 and len(reqs) == 1
        if ok:
            bb, i, rv = reqs[0]
            tx = b.expr(rv["ops"][rv["fields"].index("__reply_tx")])
            ok_tx = tx[0] == "proj" and tx[2] == ("0",) and tx[1][0] == "call" and tx[1][3] == chans[0]
            rx_aw = [a for a in b.awaits() if "oneshot::Receiver" in a.get("fut_ty", "")]
            ok_rx = bool(rx_aw) and all(any(o.kind == "call" and o.detail[0] == chans[0] and o.path[:1] == ("1",) for o in a["src"])
                                        for a in rx_aw)
            ok = ok_tx and ok_rx
        ck.expect(ok, site, "fresh oneshot channel: sender in the request, receiver awaited",
                  f"{site}: channel calls={len(chans)}, request aggregates={len(reqs)}; sender/receiver not from one fresh channel",
                  b.loc(0))
    ck.expect(n >= 8, "client-methods#count", f"{n} generated client methods checked", f"only {n} client methods found", None)


def r12_3(ck, F):
    ck.rule("R12.3", "the reply is linear: rch::oneshot::Sender::send and rtc::send_reply take the sender by value",
            "a second reply to the same call", floor=2)
    f = F.fn("rch::oneshot::sender::Sender::send")
    ck.expect(f["inputs"][0].startswith("rch::oneshot::sender::Sender<"), "oneshot::Sender::send#by-value",
              f"takes {f['inputs'][0][:60]}", f"oneshot::Sender::send takes {f['inputs'][0]}", f"{f['file']}:{f['line']}")
    f = F.fn("rtc::send_reply")
    ck.expect(f["inputs"][0].startswith("rch::oneshot::sender::Sender<"), "rtc::send_reply#by-value",
              f"takes {f['inputs'][0][:60]}", f"send_reply takes {f['inputs'][0]}", f"{f['file']}:{f['line']}")
    ck.expect(not F.has_impl("rch::oneshot::sender::Sender", "std::clone::Clone"), "oneshot::Sender#!Clone",
              "oneshot sender is not Clone", "oneshot::Sender implements Clone", None)


def r12_4(ck, F):
    ck.rule("R12.4", "ServerSharedMut::serve: the target passed to a RefMut dispatch derives from RwLock::write().await "
            "(through deref_mut of the guard), the target of a Ref dispatch from RwLock::read()/read_owned().await",
            "a mutable method running concurrently with readers or another writer of the same target", floor=6)
    n = 0
    for b, flavour in serve_coroutines(F):
        if flavour != "ServerSharedMut":
            continue
        fam = [b] + [k for k in F.children.get((b.crate, b.dp), [])]
        for x in fam:
            for bb, t in x.calls():
                c = callee(t) or ""
                if not (c.endswith("::dispatch") and t["fn"].get("local")):
                    continue
                n += 1
                tgt = x.expr(t["a"][1])
                sh = mir.show(tgt)
                mutable = "ReqRefMut::dispatch" in c
                lock_calls = [k[1] for k in mir.calls_in(tgt)]
                if x is not b and not any("RwLock" in k for k in lock_calls):
                    # spawned read dispatch: the guard is captured; resolve the upvar in the parent
                    for p in mir.paths_in(tgt):
                        for o in F.upvar_origins(x, p.split(".")[0]):
                            if o.kind == "call":
                                lock_calls.append(o.detail[1])
                    pb = F.parent_body(x)
                    for p in mir.paths_in(tgt):
                        name = p.split(".")[0]
                        if pb is not None and name in x.upvars:
                            idx = x.upvars.index(name)
                            for pbb, blk in enumerate(pb.blocks):
                                for s in blk["s"]:
                                    if s["k"] == "assign" and s["rv"]["r"] == "agg" and s["rv"].get("dp") == x.dp:
                                        lock_calls += [k[1] for k in mir.calls_in(pb.expr(s["rv"]["ops"][idx]))]
                if mutable:
                    ok = any(k.endswith("RwLock::write") for k in lock_calls) and "deref_mut" in sh
                else:
                    ok = any(k.endswith(("RwLock::read", "RwLock::read_owned")) for k in lock_calls)
                ck.expect(ok, f"{short(b.path)}#{'RefMut' if mutable else 'Ref'}-target{n}",
                          f"target derives from {'the write' if mutable else 'a read'} guard",
                          f"{'mutable' if mutable else 'shared'} dispatch gets target {sh[:100]} not derived from the "
                          f"{'write' if mutable else 'read'} lock", x.loc(bb))
    ck.expect(n >= 6, "ServerSharedMut#dispatches", f"{n} dispatch sites", f"only {n} dispatch sites in ServerSharedMut", None)


def r12_5(ck, F):
    ck.rule("R12.5", "a call always gets an outcome: in the function-call clients (RFn / RFnMut try_call_int) the outcome of "
            "queueing the request — which on failure carries the rejected request with the call's own result sender — is "
            "dropped before the result is awaited",
            "provider dropped, local clone called: the failed send's error keeps the call's result_tx alive, the result "
            "channel can neither deliver nor close and the call hangs instead of returning CallError::Dropped", floor=2)
    for fn in ("rfn::rfn_const::RFn::try_call_int", "rfn::rfn_mut::RFnMut::try_call_int"):
        b = F.main_body(fn)
        aw = b.awaits()
        send = [a for a in aw if "mpsc::sender::Sender" in (a.get("fut_fn") or "") and "send" in (a.get("fut_fn") or "")]
        res = [a for a in aw if "oneshot::receiver::Receiver" in a.get("fut_ty", "")]
        if not send or not res:
            raise mir.AnchorMissing(f"send / result awaits in {fn}")
        # locals that hold the send outcome
        holders = [i for i, l in enumerate(b.locals) if l["ty"].startswith("std::result::Result<rch::Sending<") or
                   "SendError<rfn::RFnRequest" in l["ty"] and l["ty"].startswith("std::result::Result<")]
        ok = bool(holders)
        worst = None
        for l in holders:
            rel = b.moves_of(l)
            defs = [d[1] for d in b.defs.get(l, [])]
            if not defs:
                continue
            # from where the outcome is stored, the result await must not be reachable without releasing it;
            # a temporary that is moved on into another holder is followed there
            rel_eff = {x for x in rel if b.term(x)["t"] == "drop" or (b.term(x)["t"] == "call")}
            movers = {x for x in rel if x not in rel_eff}
            defs = [d for d in defs if d not in rel_eff and d not in movers]     # released by the defining block's own terminator
            p = b.find_path(defs, [res[0]["poll_bb"]], avoid=rel_eff | movers, from_succ=True) if defs else None
            if p is not None:
                ok, worst = False, l
        ck.expect(ok, fn.replace("rfn::", "") + "#send-outcome-dropped", "send outcome released before awaiting the result",
                  f"the outcome of request_tx.send (local _{worst}: {b.local_ty(worst)[:60] if worst is not None else ''}) is still alive "
                  f"while the result is awaited", b.loc(res[0]["yield_bb"]))


def r12_6(ck, F):
    ck.rule("R12.6", "every method of a remote trait is remote: for each #[remote] trait of the analysed user crate, the "
            "generated client implements every trait method itself (also those with a default body) by constructing the "
            "request variant of that method, every method has a request variant, and every request variant is dispatched to "
            "the trait method of the same name",
            "a default-bodied method that the served target overrides: the client inherits the trait's default body, runs it "
            "locally and returns Ok(value) although the callee ran zero times", floor=20)

    def pascal(n):
        return "".join(x[:1].upper() + x[1:] for x in n.split("_"))
    n = 0
    for cname, crate in F.crates.items():
        if not cname.startswith(USER_CRATES):
            continue
        cr = cname.split(".")[0]
        fns = crate["fns"]
        adts = {a["path"]: a for a in crate["adts"]}
        for tr in crate.get("traits", []):
            tpath = tr["path"]                      # module-qualified: several test modules define a trait `Counter`
            tname = tpath.split("::")[-1]
            req = adts.get(tpath + "Req")
            if req is None:
                continue        # not a #[remote] trait
            label = tpath if sum(1 for t in crate.get("traits", []) if t["path"].split("::")[-1] == tname) > 1 else tname
            variants = {v["name"] for v in req["variants"] if not v["name"].startswith("__")}
            client = [f for f in fns if f.get("impl_trait") == tpath and (f.get("impl_adt") or "") == tpath + "Client"]
            cnames = {f["name"] for f in client}
            for m in tr["items"]:
                n += 1
                site = f"{label}::{m}"
                ck.expect(m in cnames, site + "#client-forwards", "client implements the method",
                          f"the generated {tname}Client does not implement `{m}` itself: calls run the trait's default body locally "
                          f"instead of being sent to the server", None)
                ck.expect(pascal(m) in variants, site + "#request-variant", f"request variant {pascal(m)}",
                          f"no request variant for `{tpath}::{m}` in {tname}Req ({sorted(variants)})", None)
                if m in cnames:
                    pat = re.compile(r"<" + re.escape(tpath) + r"Client(?:<.*?>)? as " + re.escape(tpath) + r"(?:<.*?>)?>::" + re.escape(m) + r"(::|$)")
                    bodies = [b for b in F.by_dp.values() if b.crate == cr and pat.search(b.path)]
                    fam = {rv["variant"] for b in bodies for bb, i, rv in b.aggregates()
                           if rv.get("adt", "").startswith(tpath + "Req")}
                    ck.expect(pascal(m) in fam, site + "#client-builds-request", f"client method builds {pascal(m)}",
                              f"{tname}Client::{m} does not construct the request variant {pascal(m)} (built: {sorted(fam)}; "
                              f"{len(bodies)} bodies)", None)
            # dispatch: each variant's arm calls the trait method of the same name
            disp = set()
            for b, meth, kind in dispatch_coroutines(F):
                if meth and (meth[0] == tpath or meth[0].endswith("::" + tpath)) or \
                        (meth and meth[0].split("::")[-1] == tname and tpath.rsplit("::", 1)[0] in b.path):
                    disp.add(meth[1])
            for m in tr["items"]:
                ck.expect(m in disp, f"{label}::{m}#dispatched", "a dispatch future calls the trait method",
                          f"no generated dispatch future calls {tpath}::{m}", None)
    ck.expect(n >= 15, "remote-traits#methods", f"{n} remote trait methods", f"only {n} remote trait methods found", None)


def run(ck, F):
    import c19
    for r in (r12_1, r12_2, r12_3, r12_4, r12_5, r12_6):
        ck.run_rule(r)
    ck.run_rule(c19.r19_1)      # #[no_cancel] is what makes a mutable method atomic w.r.t. an abandoned call
