"""Anchors and helpers shared by several property modules (the table DESIGN.md §1.2 refers to)."""
import mir
from mir import AnchorMissing, callee

# ---- chmux anchors
SENDER_EMIT_FNS = [
    "chmux::sender::Sender::send",
    "chmux::sender::Sender::try_send",
    "chmux::sender::Sender::connect",
    "chmux::sender::ChunkSender::send_int",
]
TAKE = "chmux::credit::AssignedCredits::take"
AVAILABLE = "chmux::credit::AssignedCredits::available"
CREDITS_IS_EMPTY = "chmux::credit::AssignedCredits::is_empty"
REQUEST = "chmux::credit::CreditUser::request"
TRY_REQUEST = "chmux::credit::CreditUser::try_request"
PERMIT_SEND = {"tokio::sync::mpsc::Permit::send", "tokio::sync::mpsc::OwnedPermit::send"}
MPSC_SEND = "tokio::sync::mpsc::Sender::send"
MPSC_TRY_SEND = "tokio::sync::mpsc::Sender::try_send"
MPSC_RESERVE = {"tokio::sync::mpsc::Sender::reserve", "tokio::sync::mpsc::Sender::try_reserve",
                "tokio::sync::mpsc::Sender::reserve_many", "tokio::sync::mpsc::Sender::try_reserve_many",
                "tokio::sync::mpsc::Sender::reserve_owned", "tokio::sync::mpsc::Sender::try_reserve_owned"}
PORT_EVT = "chmux::mux::PortEvt"
MUX_MSG = "chmux::msg::MultiplexMsg"
HANDLE_EVENT = "chmux::mux::ChMux::handle_event"
HANDLE_RECEIVED = "chmux::mux::ChMux::handle_received_msg"
CHMUX = "chmux::mux::ChMux"


def emit_bodies(F):
    """Main coroutine / fn body of each sender-side emit function."""
    return [(p, F.main_body(p)) for p in SENDER_EMIT_FNS]


def fn_short(path):
    return path.replace("chmux::sender::", "").replace("::<TransportSink, TransportStream>", "")


def size_of_value(e):
    """Value of a `size_of::<T>()` call expression for primitive T, else None."""
    e = mir.strip_casts(e)
    if isinstance(e, tuple) and e and e[0] == "call" and e[1] in ("std::mem::size_of", "core::mem::size_of"):
        t = e[4][0] if len(e) > 4 and e[4] else None
        return {"u8": 1, "i8": 1, "u16": 2, "i16": 2, "u32": 4, "i32": 4, "u64": 8, "i64": 8, "u128": 16}.get(t)
    return None


def const_value(e):
    """Integer value of a constant expression (literal, named const, size_of of a primitive)."""
    e = mir.strip_casts(e)
    if not isinstance(e, tuple) or not e:
        return None
    if e[0] == "const" and e[1] is not None:
        try:
            return int(e[1])
        except (TypeError, ValueError):
            return None
    if e[0] == "constdef" and e[2] is not None:
        try:
            return int(e[2])
        except (TypeError, ValueError):
            return None
    return size_of_value(e)


def controlling_edges(b, bb):
    """Switch edges (S, target, value) such that, within one visit of S, `bb` is reached only via
    that edge (value None = otherwise edge).  Nearest first."""
    out = []
    doms = [d for d in b.dom.get(bb, ()) if d != bb and b.term(d)["t"] == "switch"]
    # order by proximity: deeper dominators last in dom order -> sort by dominator set size, descending
    doms.sort(key=lambda d: -len(b.dom[d]))
    for s in doms:
        t = b.term(s)
        edges = [(v, tb) for v, tb in t["targets"]] + [(None, t["otherwise"])]
        via = []
        for v, tb in edges:
            others = [x for _, x in edges if x != tb]
            if bb in b.reach([tb], avoid=[s]) and bb not in b.reach(others, avoid=[s]):
                via.append((s, tb, v))
        out.extend(via)
    return out


def switch_expr(b, s):
    """Expression of the scrutinee of switch block s."""
    return b.expr(b.term(s)["o"])


def switch_meaning(b, s, value):
    """For an enum discriminant switch: the variant name selected by `value` (None = otherwise);
    for a bool switch: True/False."""
    t = b.term(s)
    if t["ty"] == "bool":
        if value is None:
            return True   # otherwise of a [0 -> ..] switch is `true`
        return value != "0"
    # discriminant: find the discr statement defining the operand
    o = t["o"]
    if o[0] != "k":
        for d in b.defs.get(o[1][0], []):
            if d[0] == "assign" and d[3]["rv"]["r"] == "discr":
                vs = dict((v, n) for v, n in d[3]["rv"].get("variants", []))
                if value is None:
                    rest = [n for v, n in vs.items() if v not in {x for x, _ in t["targets"]}]
                    return tuple(rest)
                return vs.get(value, value)
    return value


def switch_edges(b, pred, blocks=None):
    """[(switch bb, target bb, meaning, scrutinee expr)] over all switch terminators (optionally only in `blocks`)
    whose scrutinee expression satisfies pred."""
    out = []
    for bb in (blocks if blocks is not None else b.reachable):
        t = b.term(bb)
        if t["t"] != "switch":
            continue
        e = switch_expr(b, bb)
        if not pred(e):
            continue
        for v, tb in list(t["targets"]) + [(None, t["otherwise"])]:
            out.append((bb, tb, switch_meaning(b, bb, v), e))
    return out


def arith(e):
    """Normalise an addition / subtraction written as an operator or as a saturating_/checked_/wrapping_
    method call: returns (op, lhs, rhs) with op in {'Add', 'Sub', 'Mul'} or None.  `checked_*` results are
    looked through `?` / unwrap-style wrappers by the callers' use of calls_in where needed."""
    e = mir.strip_casts(e)
    if isinstance(e, tuple) and e:
        if e[0] == "bin" and e[1] in ("Add", "Sub", "Mul"):
            return (e[1], e[2], e[3])
        if e[0] == "call" and len(e[2]) == 2:
            n = e[1].split("::")[-1]
            for pre in ("saturating_", "checked_", "wrapping_", "overflowing_"):
                if n.startswith(pre) and n[len(pre):] in ("add", "sub", "mul"):
                    return (n[len(pre):].capitalize(), e[2][0], e[2][1])
        if e[0] in ("try", "proj") and len(e) > 1:
            return arith(e[1])
        if e[0] == "call" and e[1] in ("std::option::Option::unwrap", "std::option::Option::expect",
                                       "std::option::Option::unwrap_or", "std::option::Option::unwrap_or_default") and e[2]:
            return arith(e[2][0])
    return None


def select_info(b):
    """tokio::select! expansions of a body: [{'poll_bb','ready_bb','switch','arms': {k: {'fut': callee of the
    branch future, 'expr': its expression, 'target': first block of the arm's handler}}}].  The macro builds a tuple
    of the branch futures (position k), polls them from one poll_fn closure and yields an output enum with variant
    `_k` for branch k (and `Disabled`)."""
    out = []
    for a in b.awaits():
        if "PollFn" not in (a.get("fut_ty") or "") or a.get("ready_bb") is None:
            continue
        futs = None
        for bb, i, s in b.assigns():
            rv = s["rv"]
            if rv["r"] == "agg" and rv.get("kind") == "closure" and b.dominates(bb, a["poll_bb"]):
                for o in rv["ops"]:
                    e = b.expr(o)
                    if e[0] == "agg" and e[1] == "tuple" and e[3] and all(isinstance(x, tuple) and len(x) == 2 for x in e[3]):
                        cand = {}
                        for idx, fe in e[3]:
                            inner = fe
                            while inner[0] == "call" and inner[1] == "std::future::IntoFuture::into_future" and inner[2]:
                                inner = inner[2][0]
                            cand[str(idx)] = inner
                        # nearest closure before the poll wins
                        if futs is None or bb >= futs[0]:
                            futs = (bb, cand)
        if futs is None:
            continue
        sw = None
        for bb in sorted(b.reach([a["ready_bb"]], avoid=[a["poll_bb"]])):
            for s in b.stmts(bb):
                rv = s.get("rv") or {}
                if rv.get("r") == "discr" and "Disabled" in [v[1] for v in rv.get("variants", [])]:
                    sw = bb
                    break
            if sw is not None:
                break
        if sw is None:
            continue
        t = b.term(sw)
        if t["t"] != "switch":
            continue
        arms = {}
        variants = None
        for s in b.stmts(sw):
            rv = s.get("rv") or {}
            if rv.get("r") == "discr":
                variants = {str(v[0]): v[1] for v in rv["variants"]}
        for val, tgt in t["targets"]:
            name = (variants or {}).get(str(val))
            if name and name.startswith("_") and name[1:] in futs[1]:
                fe = futs[1][name[1:]]
                arms[name[1:]] = {"fut": fe[1] if fe[0] == "call" else None, "expr": fe, "target": int(str(tgt).replace("bb", ""))}
        out.append({"poll_bb": a["poll_bb"], "ready_bb": a["ready_bb"], "switch": sw, "arms": arms, "line": a["line"]})
    return out
