"""Anchors and helpers shared by several property modules (the table DESIGN.md §1.2 refers to)."""
import mir
from mir import callee
from mir import AnchorMissing, callee

# ---- chmux anchors
SENDER_EMIT_FNS = [
    "chmux::sender::Sender::send",
    "chmux::sender::Sender::try_send",
    "chmux::sender::Sender::connect",
    "chmux::sender::ChunkSender::send_int",
]
TAKE = "chmux::credit::AssignedCredits::take"
AVAILABLE = "chmux::credit::AssignedCredits::available"
CREDITS_IS_EMPTY = "chmux::credit::AssignedCredits::is_empty"
REQUEST = "chmux::credit::CreditUser::request"
TRY_REQUEST = "chmux::credit::CreditUser::try_request"
PERMIT_SEND = {"tokio::sync::mpsc::Permit::send", "tokio::sync::mpsc::OwnedPermit::send"}
MPSC_SEND = "tokio::sync::mpsc::Sender::send"
MPSC_TRY_SEND = "tokio::sync::mpsc::Sender::try_send"
MPSC_RESERVE = {"tokio::sync::mpsc::Sender::reserve", "tokio::sync::mpsc::Sender::try_reserve",
                "tokio::sync::mpsc::Sender::reserve_many", "tokio::sync::mpsc::Sender::try_reserve_many",
                "tokio::sync::mpsc::Sender::reserve_owned", "tokio::sync::mpsc::Sender::try_reserve_owned"}
PORT_EVT = "chmux::mux::PortEvt"
MUX_MSG = "chmux::msg::MultiplexMsg"
HANDLE_EVENT = "chmux::mux::ChMux::handle_event"
HANDLE_RECEIVED = "chmux::mux::ChMux::handle_received_msg"
CHMUX = "chmux::mux::ChMux"


def emit_bodies(F):
    """Main coroutine / fn body of each sender-side emit function."""
    return [(p, F.main_body(p)) for p in SENDER_EMIT_FNS]


def emit_api_coverage(ck, F):
    """Anti-vacuity for the per-emit-site rules, independent of how many sites there are: every public sending entry point
    of chmux::Sender / ChunkSender constructs a SendData / SendPorts event itself or calls (directly) another function of
    sender.rs that does — so merging duplicated send loops (Sender::send delegating to ChunkSender::send_int) lowers the
    number of sites without making a rule pass on nothing."""
    emitters = {}
    for p in SENDER_EMIT_FNS:
        b = F.main_body(p)
        emitters[p] = any(rv["variant"] in ("SendData", "SendPorts") for bb, i, rv in b.aggregates(PORT_EVT))
    for p in SENDER_EMIT_FNS:
        b = F.main_body(p)
        direct = emitters[p]
        via = [q for q in SENDER_EMIT_FNS if q != p and emitters[q] and
               any(mir.strip_generics(callee(t) or "") == q for x in F.family(p) for bb, t in x.calls())]
        ck.expect(direct or bool(via), fn_short(p) + "#reaches-emit-site",
                  "constructs the event itself" if direct else f"delegates to {fn_short(via[0])}",
                  f"{p} neither constructs a SendData / SendPorts event nor calls a function of sender.rs that does: the emit-site "
                  f"rules would pass on nothing", b.loc(0))


def fn_short(path):
    return path.replace("chmux::sender::", "").replace("::<TransportSink, TransportStream>", "")


def size_of_value(e):
    """Value of a `size_of::<T>()` call expression for primitive T, else None."""
    e = mir.strip_casts(e)
    if isinstance(e, tuple) and e and e[0] == "call" and e[1] in ("std::mem::size_of", "core::mem::size_of"):
        t = e[4][0] if len(e) > 4 and e[4] else None
        return {"u8": 1, "i8": 1, "u16": 2, "i16": 2, "u32": 4, "i32": 4, "u64": 8, "i64": 8, "u128": 16}.get(t)
    return None


def const_value(e):
    """Integer value of a constant expression (literal, named const, size_of of a primitive)."""
    e = mir.strip_casts(e)
    if not isinstance(e, tuple) or not e:
        return None
    if e[0] == "const" and e[1] is not None:
        try:
            return int(e[1])
        except (TypeError, ValueError):
            return None
    if e[0] == "constdef" and e[2] is not None:
        try:
            return int(e[2])
        except (TypeError, ValueError):
            return None
    return size_of_value(e)


def controlling_edges(b, bb):
    """Switch edges (S, target, value) such that, within one visit of S, `bb` is reached only via
    that edge (value None = otherwise edge).  Nearest first.

    Reachability is decided with constant / variant propagation (Body.find_path_cp) where the plain CFG is
    ambiguous, so a condition evaluated into a flag (`matches!`) or inside a spliced-in helper that returns
    Some / None, true / false still controls the blocks that depend on the flag / the returned variant.  Switches
    inside spliced-in helpers are candidates even when they are not dominators in the plain CFG."""
    key = ("ce", bb)
    cache = b.__dict__.setdefault("_ce_cache", {})
    if key in cache:
        return cache[key]
    out = []
    doms = [d for d in b.dom.get(bb, ()) if d != bb and b.term(d)["t"] == "switch"]
    # order by proximity: deeper dominators last in dom order -> sort by dominator set size, descending
    doms.sort(key=lambda d: -len(b.dom[d]))
    extra = []
    if any(blk.get("inl") for blk in b.blocks):
        up = None
        for s in range(b.n):
            blk = b.blocks[s]
            if blk.get("inl") and blk["t"]["t"] == "switch" and s not in doms and s != bb and s in b.reachable:
                if up is None:
                    up = b.reach([0])
                if bb in b.reach([s]) and b.find_path([0], [bb], avoid=[s]) is None:
                    extra.append(s)
    for s in doms + extra:
        t = b.term(s)
        edges = [(v, tb) for v, tb in t["targets"]] + [(None, t["otherwise"])]
        via = []
        for v, tb in edges:
            others = [x for _, x in edges if x != tb]
            if bb not in b.reach([tb], avoid=[s]):
                continue
            if bb in b.reach(others, avoid=[s]):
                # ambiguous in the plain CFG: both sides join before bb; keep the edge if value propagation separates them
                if b.find_path_cp(others, [bb], avoid=[s]) is not None or b.find_path_cp([tb], [bb], avoid=[s]) is None:
                    continue
            via.append((s, tb, v))
        out.extend(via)
    cache[key] = out
    return out


_SAME_OUTCOME = {
    "std::result::Result::map_err", "std::result::Result::map", "std::option::Option::map", "std::option::Option::as_ref",
    "std::option::Option::as_mut", "std::result::Result::as_ref", "std::result::Result::as_mut", "std::option::Option::as_deref",
    "std::option::Option::as_deref_mut", "std::option::Option::cloned", "std::option::Option::copied",
    "std::result::Result::cloned", "std::result::Result::copied", "std::option::Option::inspect", "std::result::Result::inspect",
    "std::result::Result::inspect_err", "std::option::Option::take", "std::option::Option::as_pin_mut",
    "std::option::Option::filter",      # Some stays Some (under the predicate), None stays None
}


def peel_outcome(e):
    """Look through `?` and the Option / Result combinators that keep or rename the outcome: returns (source expression,
    {outer variant name -> variant name of the source}).  `x.ok_or(e)?` on an Option x: Continue -> Some, Break -> None."""
    ren = None      # None = identity

    def compose(m):
        nonlocal ren
        if ren is None:
            ren = dict(m)
        else:
            ren = {k: m.get(v, v) for k, v in ren.items()}
            for k, v in m.items():
                ren.setdefault(k, v)
    for _ in range(8):
        if not isinstance(e, tuple) or not e:
            break
        if e[0] == "try" and len(e) > 1:
            ty = e[2] if len(e) > 2 else ""
            if ty.startswith("std::option::Option"):
                compose({"Continue": "Some", "Break": "None"})
            elif ty.startswith("std::result::Result"):
                compose({"Continue": "Ok", "Break": "Err"})
            else:
                break
            e = e[1]
        elif e[0] == "call" and e[1] in ("std::option::Option::ok_or", "std::option::Option::ok_or_else") and e[2]:
            compose({"Ok": "Some", "Err": "None"})
            e = e[2][0]
        elif e[0] == "call" and e[1] == "std::result::Result::ok" and e[2]:
            compose({"Some": "Ok", "None": "Err"})
            e = e[2][0]
        elif e[0] == "call" and e[1] == "std::result::Result::err" and e[2]:
            compose({"Some": "Err", "None": "Ok"})
            e = e[2][0]
        elif e[0] == "call" and e[1] in _SAME_OUTCOME and e[2]:
            e = e[2][0]
        else:
            break
    return e, (ren or {})


def switch_expr_raw(b, s):
    return b.expr(b.term(s)["o"])


def switch_expr(b, s):
    """Expression of the scrutinee of switch block s.  For a discriminant switch the `?` operator and outcome-preserving
    combinators are looked through (see peel_outcome), so `match x {None => ..}` and `x.ok_or(..)?` read alike."""
    e = b.expr(b.term(s)["o"])
    if isinstance(e, tuple) and e and e[0] == "discr":
        src, _ = peel_outcome(e[1])
        return ("discr", src)
    return e


def switch_meaning(b, s, value):
    """For an enum discriminant switch: the variant name selected by `value` (None = otherwise);
    for a bool switch: True/False."""
    t = b.term(s)
    if t["ty"] == "bool":
        if value is None:
            return True   # otherwise of a [0 -> ..] switch is `true`
        return value != "0"
    # discriminant: find the discr statement defining the operand
    o = t["o"]
    if o[0] != "k":
        for d in b.defs.get(o[1][0], []):
            if d[0] == "assign" and d[3]["rv"]["r"] == "discr":
                vs = dict((v, n) for v, n in d[3]["rv"].get("variants", []))
                e = b.expr(o)
                ren = peel_outcome(e[1])[1] if isinstance(e, tuple) and e and e[0] == "discr" else {}
                if value is None:
                    rest = [ren.get(n, n) for v, n in vs.items() if v not in {x for x, _ in t["targets"]}]
                    return tuple(rest)
                n = vs.get(value, value)
                return ren.get(n, n)
    return value


def switch_edges(b, pred, blocks=None):
    """[(switch bb, target bb, meaning, scrutinee expr)] over all switch terminators (optionally only in `blocks`)
    whose scrutinee expression satisfies pred."""
    out = []
    for bb in (blocks if blocks is not None else b.reachable):
        t = b.term(bb)
        if t["t"] != "switch":
            continue
        e = switch_expr(b, bb)
        if not pred(e):
            continue
        for v, tb in list(t["targets"]) + [(None, t["otherwise"])]:
            out.append((bb, tb, switch_meaning(b, bb, v), e))
    return out


def outcome_edges(b, blocks=None, pred=None):
    """[(switch bb, target bb, variant name, source expr)] for every branch on the *outcome* of an Option / Result,
    however it is spelled: a match / if-let / `?` on the value (discriminant switch) or a test with is_ok() / is_err() /
    is_some() / is_none() (bool switch).  `pred(source expr)` filters by the tested value."""
    tests = {"std::option::Option::is_none": ("None", "Some"), "std::option::Option::is_some": ("Some", "None"),
             "std::result::Result::is_ok": ("Ok", "Err"), "std::result::Result::is_err": ("Err", "Ok")}
    out = []
    for bb in (blocks if blocks is not None else b.reachable):
        t = b.term(bb)
        if t["t"] != "switch":
            continue
        e = switch_expr(b, bb)
        neg = False
        while isinstance(e, tuple) and e and e[0] == "un" and e[1] == "Not":
            e, neg = e[2], not neg
        if isinstance(e, tuple) and e and e[0] == "discr":
            if pred is not None and not pred(e[1]):
                continue
            for v, tb in list(t["targets"]) + [(None, t["otherwise"])]:
                m = switch_meaning(b, bb, v)
                for name in (m if isinstance(m, tuple) else (m,)):
                    out.append((bb, tb, name, e[1]))
        elif isinstance(e, tuple) and e and e[0] == "call" and e[1] in tests and e[2]:
            src, ren = peel_outcome(e[2][0])
            if pred is not None and not pred(src):
                continue
            yes, no = tests[e[1]]
            for v, tb in list(t["targets"]) + [(None, t["otherwise"])]:
                m = switch_meaning(b, bb, v)
                if isinstance(m, bool):
                    name = yes if (m != neg) else no
                    out.append((bb, tb, ren.get(name, name), src))
    return out


def arith(e):
    """Normalise an addition / subtraction written as an operator or as a saturating_/checked_/wrapping_
    method call: returns (op, lhs, rhs) with op in {'Add', 'Sub', 'Mul'} or None.  `checked_*` results are
    looked through `?` / unwrap-style wrappers by the callers' use of calls_in where needed."""
    e = mir.strip_casts(e)
    if isinstance(e, tuple) and e:
        if e[0] == "bin" and e[1] in ("Add", "Sub", "Mul"):
            return (e[1], e[2], e[3])
        if e[0] == "call" and len(e[2]) == 2:
            n = e[1].split("::")[-1]
            for pre in ("saturating_", "checked_", "wrapping_", "overflowing_"):
                if n.startswith(pre) and n[len(pre):] in ("add", "sub", "mul"):
                    return (n[len(pre):].capitalize(), e[2][0], e[2][1])
        if e[0] in ("try", "proj") and len(e) > 1:
            return arith(e[1])
        if e[0] == "call" and e[1] in ("std::option::Option::unwrap", "std::option::Option::expect",
                                       "std::option::Option::unwrap_or", "std::option::Option::unwrap_or_default") and e[2]:
            return arith(e[2][0])
    return None


def select_info(b):
    """tokio::select! expansions of a body: [{'poll_bb','ready_bb','switch','arms': {k: {'fut': callee of the
    branch future, 'expr': its expression, 'target': first block of the arm's handler}}}].  The macro builds a tuple
    of the branch futures (position k), polls them from one poll_fn closure and yields an output enum with variant
    `_k` for branch k (and `Disabled`)."""
    out = []
    for a in b.awaits():
        if "PollFn" not in (a.get("fut_ty") or "") or a.get("ready_bb") is None:
            continue
        futs = None
        for bb, i, s in b.assigns():
            rv = s["rv"]
            if rv["r"] == "agg" and rv.get("kind") == "closure" and b.dominates(bb, a["poll_bb"]):
                for o in rv["ops"]:
                    e = b.expr(o)
                    if e[0] == "agg" and e[1] == "tuple" and e[3] and all(isinstance(x, tuple) and len(x) == 2 for x in e[3]):
                        cand = {}
                        for idx, fe in e[3]:
                            inner = fe
                            while inner[0] == "call" and inner[1] == "std::future::IntoFuture::into_future" and inner[2]:
                                inner = inner[2][0]
                            cand[str(idx)] = inner
                        # nearest closure before the poll wins
                        if futs is None or bb >= futs[0]:
                            futs = (bb, cand)
        if futs is None:
            continue
        sw = None
        for bb in sorted(b.reach([a["ready_bb"]], avoid=[a["poll_bb"]])):
            for s in b.stmts(bb):
                rv = s.get("rv") or {}
                if rv.get("r") == "discr" and "Disabled" in [v[1] for v in rv.get("variants", [])]:
                    sw = bb
                    break
            if sw is not None:
                break
        if sw is None:
            continue
        t = b.term(sw)
        if t["t"] != "switch":
            continue
        arms = {}
        variants = None
        for s in b.stmts(sw):
            rv = s.get("rv") or {}
            if rv.get("r") == "discr":
                variants = {str(v[0]): v[1] for v in rv["variants"]}
        for val, tgt in t["targets"]:
            name = (variants or {}).get(str(val))
            if name and name.startswith("_") and name[1:] in futs[1]:
                fe = futs[1][name[1:]]
                arms[name[1:]] = {"fut": fe[1] if fe[0] == "call" else None, "expr": fe, "target": int(str(tgt).replace("bb", ""))}
        out.append({"poll_bb": a["poll_bb"], "ready_bb": a["ready_bb"], "switch": sw, "arms": arms, "line": a["line"]})
    return out


def yields_error(b, starts, adt, variant=None, avoid=()):
    """True if from the blocks `starts` the function can leave with an error value of `adt` (`::variant`): an aggregate
    of it is constructed on the way, or a value that contains one (built eagerly before, e.g. the argument of ok_or /
    a constructor given to map_err) is handed to FromResidual::from_residual / stored into the return place."""
    region = b.reach(list(starts), avoid=list(avoid))
    for bb, i, rv in b.aggregates(adt, variant):
        if bb in region:
            return True

    def has(e):
        for x in mir.walk(e):
            if isinstance(x, tuple) and x:
                if x[0] == "agg" and x[1] == adt and (variant is None or x[2] == variant):
                    return True
                if x[0] in ("fnconst", "fn") and isinstance(x[1], str) and x[1].startswith(adt) and (variant is None or x[1].endswith("::" + variant)):
                    return True
        return False
    for bb in region:
        t = b.term(bb)
        if t["t"] == "call" and (mir.callee(t) or "").endswith("FromResidual::from_residual") and t["a"] and has(b.expr(t["a"][0])):
            return True
        for st in b.stmts(bb):
            if st.get("k") == "assign" and st["p"] == [0] and st["rv"]["r"] == "use" and has(b.expr(st["rv"]["o"])):
                return True
    return False


def ok_capable_stores(b):
    """Blocks that store a value into the return place which may be the success variant: an Ok / Some / Ready aggregate,
    or the result of a call other than FromResidual::from_residual (which only carries the failure).  Returns
    [(bb, expr or None)], expr for call results."""
    out = []
    for bb in sorted(b.reachable):
        for i, st in enumerate(b.stmts(bb)):
            if st.get("k") == "assign" and st["p"] == [0]:
                rv = st["rv"]
                if rv["r"] == "agg":
                    if rv.get("variant") in ("Ok", "Some", "Ready"):
                        out.append((bb, None))
                elif rv["r"] == "use" and rv["o"][0] != "k":
                    e = b.expr(rv["o"])
                    if not (isinstance(e, tuple) and e and e[0] == "agg" and e[2] in ("Err", "None")):
                        out.append((bb, e))
        t = b.term(bb)
        if t["t"] == "call" and t.get("d") == [0] and not (mir.callee(t) or "").endswith("FromResidual::from_residual"):
            out.append((bb, b.expr(["c", [0]]) if False else ("call", mir.callee(t), tuple(b.expr(a) for a in t["a"]), bb, ())))
    return out


def controlled_by_option(b, bb, want, pred=lambda e: True):
    """Is block bb control-dependent on an Option (whose expression satisfies pred) being `want` ('None' / 'Some')?
    Recognises is_none() / is_some() tests and matches on the Option itself."""
    for s, tb, v in controlling_edges(b, bb):
        e = switch_expr(b, s)
        m = switch_meaning(b, s, v)
        if isinstance(e, tuple) and e and e[0] == "call" and e[1] in ("std::option::Option::is_none", "std::option::Option::is_some") and e[2]:
            if not pred(e[2][0]):
                continue
            is_none = (m is True) == e[1].endswith("is_none")
            if (want == "None") == is_none:
                return True
        if isinstance(e, tuple) and e and e[0] == "discr" and pred(e[1]):
            if m == want or (isinstance(m, tuple) and set(m) == {want}):
                return True
    return False


_NEG = {"Lt": "Ge", "Le": "Gt", "Gt": "Le", "Ge": "Lt", "Eq": "Ne", "Ne": "Eq"}
_SWAP = {"Lt": "Gt", "Le": "Ge", "Gt": "Lt", "Ge": "Le", "Eq": "Eq", "Ne": "Ne"}


def _cmp_forms(op, a, bnd):
    """All spellings of the comparison `a op bnd` (which holds): operand order swapped, and for an integer constant
    bound the strict / non-strict neighbour (x > 0  ==  x >= 1  ==  x != 0 for unsigned values)."""
    forms = {(op, a, bnd), (_SWAP[op], bnd, a)}
    k = const_value(bnd)
    if k is not None:
        kk = lambda n: ("const", str(n), None)      # noqa: E731
        if op == "Gt":
            forms.add(("Ge", a, kk(k + 1)))
            if k == 0:
                forms.add(("Ne", a, bnd))
        if op == "Ge" and k >= 1:
            forms.add(("Gt", a, kk(k - 1)))
            if k == 1:
                forms.add(("Ne", a, kk(0)))
        if op == "Lt" and k >= 1:
            forms.add(("Le", a, kk(k - 1)))
            if k == 1:
                forms.add(("Eq", a, kk(0)))
        if op == "Le":
            forms.add(("Lt", a, kk(k + 1)))
            if k == 0:
                forms.add(("Eq", a, bnd))
        if op == "Ne" and k == 0:
            forms.add(("Gt", a, bnd))
            forms.add(("Ge", a, kk(1)))
        if op == "Eq" and k == 0:
            forms.add(("Lt", a, kk(1)))
            forms.add(("Le", a, bnd))
    out = set(forms)
    for f in forms:
        out.add((_SWAP[f[0]], f[2], f[1]))
    return out


def conds(b, bb):
    """Conditions that hold at block bb because of the edges that control it, as (expression, meaning) pairs like
    [(switch_expr, switch_meaning)] — closed under the usual respellings, so that rules need not know which one the
    source uses: a comparison appears in every operand order / strictness and as its negation with meaning False;
    `!x`; is_none() / is_some() / is_ok() / is_err() tests also appear as the discriminant of their operand and
    vice versa."""
    key = ("conds", bb)
    cache = b.__dict__.setdefault("_ce_cache", {})
    if key in cache:
        return cache[key]
    out = []
    seen = set()

    def add(e, m):
        k = (repr(e), repr(m))
        if k not in seen:
            seen.add(k)
            out.append((e, m))
    for s, tb, v in controlling_edges(b, bb):
        e = switch_expr(b, s)
        m = switch_meaning(b, s, v)
        add(e, m)
        for _ in range(3):
            if isinstance(e, tuple) and e and e[0] == "un" and e[1] == "Not" and isinstance(m, bool):
                e, m = e[2], (not m)
                add(e, m)
        if isinstance(e, tuple) and e and e[0] == "bin" and e[1] in _NEG and isinstance(m, bool):
            op = e[1] if m else _NEG[e[1]]
            for f in _cmp_forms(op, e[2], e[3]):
                add(("bin", f[0], f[1], f[2]), True)
                add(("bin", _NEG[f[0]], f[1], f[2]), False)
        if isinstance(e, tuple) and e and e[0] == "call" and e[2] and isinstance(m, bool):
            tests = {"std::option::Option::is_none": ("None", "Some", "std::option::Option::is_some"),
                     "std::option::Option::is_some": ("Some", "None", "std::option::Option::is_none"),
                     "std::result::Result::is_ok": ("Ok", "Err", "std::result::Result::is_err"),
                     "std::result::Result::is_err": ("Err", "Ok", "std::result::Result::is_ok")}
            if e[1] in tests:
                yes, no, other = tests[e[1]]
                src, ren = peel_outcome(e[2][0])
                name = yes if m else no
                add(("discr", src), ren.get(name, name))
                add(("call", other, e[2]) + tuple(e[3:]), not m)
        if isinstance(e, tuple) and e and e[0] == "discr" and m == "Some":
            # x.filter(|v| P(v)) is Some only if P held: the closure's comparison is a condition too (in the closure's
            # own terms: parameter / captured variable names)
            raw = switch_expr_raw(b, s)
            for c in mir.calls_in(raw, "std::option::Option::filter"):
                cl = c[2][1] if len(c[2]) > 1 else None
                if isinstance(cl, tuple) and cl and cl[0] == "agg" and len(cl) > 4:
                    cb = b.facts.by_dp.get((b.crate, cl[4]))
                    if cb is not None:
                        r = cb.expr(["c", [0]])
                        if isinstance(r, tuple) and r and r[0] == "bin" and r[1] in _NEG:
                            for f in _cmp_forms(r[1], r[2], r[3]):
                                add(("bin", f[0], f[1], f[2]), True)
        if isinstance(e, tuple) and e and e[0] == "discr" and isinstance(m, str):
            if m in ("None", "Some"):
                add(("call", "std::option::Option::is_none", (e[1],), None, ()), m == "None")
                add(("call", "std::option::Option::is_some", (e[1],), None, ()), m == "Some")
            if m in ("Ok", "Err"):
                add(("call", "std::result::Result::is_ok", (e[1],), None, ()), m == "Ok")
                add(("call", "std::result::Result::is_err", (e[1],), None, ()), m == "Err")
    cache[key] = out
    return out


# ---------------------------------------------------------------------------------------------------------------
# Boolean functions of loop-free predicates, by concrete execution over all valuations of their atoms

def _atom_name(b, e):
    """Stable name of an atomic boolean condition: `<field>` for a field read, `<field>.<method>` for a bool call."""
    e = mir.strip_casts(e)
    if isinstance(e, tuple) and e:
        if e[0] == "call" and e[2]:
            inner = _atom_name(b, e[2][0])
            m = e[1].split("::")[-1]
            if m in ("deref", "deref_mut", "as_ref", "borrow", "clone"):
                return inner
            return f"{inner}.{m}" if inner else None
        lf = mir.last_field(e)
        if lf:
            return lf.split(":")[-1]
    return None


def bool_function(b, goal=None, max_atoms=10):
    """Truth table of a loop-free boolean predicate.  Atoms are bool-typed reads that are not whole tracked locals
    (fields, dereferenced pattern bindings) and bool-returning calls; they are named by _atom_name.  For every
    valuation of the atoms the MIR is executed concretely (const / copy / BitAnd / BitOr / BitXor / Eq / Ne / Not on
    bools, switches); a switch on a value that is not a function of the atoms explores every non-diverging successor.
    Returns (atoms, table) where table maps a tuple of atom values to the set of outcomes: with `goal` (a set of
    blocks) the outcomes are True (a goal block is reached) / False (a return is reached without), otherwise the
    returned boolean values."""
    import itertools
    rets = set(b.returns())
    can_return = {bb for bb in b.reachable if b.reach([bb]) & rets}

    def is_bool_local(l):
        return b.local_ty(l) == "bool"

    # discover atoms
    atoms = []

    def note(name):
        if name and name not in atoms:
            atoms.append(name)
    for bb in sorted(b.reachable):
        if b.is_cleanup(bb) or bb not in can_return:
            continue
        for st in b.stmts(bb):
            if st.get("k") != "assign" or st.get("xm", "").startswith("tracing"):
                continue
            rv = st["rv"]
            ops = [rv.get(k) for k in ("o", "a", "b")]
            for o in ops:
                if o and o[0] != "k" and len(o[1]) > 1:
                    ty_ok = len(st["p"]) == 1 and (is_bool_local(st["p"][0]) or rv["r"] in ("bin", "un"))
                    if ty_ok and rv["r"] in ("use", "bin", "un"):
                        e = b.expr(o)
                        if rv["r"] == "use" and not is_bool_local(st["p"][0]):
                            continue
                        note(_atom_name(b, e))
        t = b.term(bb)
        if t["t"] == "call" and t.get("dty") == "bool" and not (t.get("xm") or "").startswith("tracing") and t["a"]:
            note(_atom_name(b, ("call", mir.callee(t) or "?", tuple(b.expr(a) for a in t["a"][:1]))))
    if len(atoms) > max_atoms:
        raise mir.AnchorMissing(f"{len(atoms)} boolean atoms in {b.path}: {atoms}")

    def run(val):
        outcomes = set()
        seen = set()
        stack = [(0, {}, False)]
        steps = 0
        while stack and steps < 20000:
            steps += 1
            bb, env, hit = stack.pop()
            key = (bb, tuple(sorted(env.items())), hit)
            if key in seen:
                continue
            seen.add(key)
            env = dict(env)
            if goal is not None and bb in goal:
                hit = True

            def opv(o):
                if o is None:
                    return None
                if o[0] == "k":
                    k = o[1]
                    if isinstance(k, dict) and k.get("ty") == "bool":
                        return bool(int(k.get("v"))) if str(k.get("v")).isdigit() else {"true": True, "false": False}.get(str(k.get("v")))
                    return None
                pl = o[1]
                if len(pl) == 1:
                    if pl[0] in env:
                        return env[pl[0]]
                    return None
                nm = _atom_name(b, b.expr(o))
                return val.get(nm)
            for st in b.stmts(bb):
                if st.get("k") != "assign" or len(st["p"]) != 1:
                    continue
                rv = st["rv"]
                v = None
                if rv["r"] == "use":
                    v = opv(rv["o"])
                elif rv["r"] == "bin":
                    x, y = opv(rv["a"]), opv(rv["b"])
                    op = rv["op"]
                    if op == "BitAnd":
                        v = False if (x is False or y is False) else (True if (x is True and y is True) else None)
                    elif op == "BitOr":
                        v = True if (x is True or y is True) else (False if (x is False and y is False) else None)
                    elif x is not None and y is not None and op in ("BitXor", "Ne"):
                        v = x != y
                    elif x is not None and y is not None and op == "Eq":
                        v = x == y
                elif rv["r"] == "un" and rv["op"] == "Not":
                    x = opv(rv["a"])
                    v = (not x) if x is not None else None
                if v is None:
                    env.pop(st["p"][0], None)
                else:
                    env[st["p"][0]] = v
            t = b.term(bb)
            k = t["t"]
            if k == "return":
                if goal is not None:
                    outcomes.add(hit)
                else:
                    outcomes.add(env.get(0))
                continue
            if k == "call":
                if t["tgt"] is None:
                    continue
                if len(t["d"]) == 1:
                    env.pop(t["d"][0], None)
                    if t.get("dty") == "bool" and t["a"]:
                        nm = _atom_name(b, ("call", mir.callee(t) or "?", tuple(b.expr(a) for a in t["a"][:1])))
                        if nm in val:
                            env[t["d"][0]] = val[nm]
                stack.append((t["tgt"], env, hit))
                continue
            if k == "switch":
                v = opv(t["o"])
                if isinstance(v, bool):
                    tgt = [tb for x, tb in t["targets"] if str(x) == ("1" if v else "0")] or [t["otherwise"]]
                    stack.append((tgt[0], env, hit))
                else:
                    for n in mir.Body.term_succ(t):
                        if n in can_return:
                            stack.append((n, env, hit))
                continue
            for n in mir.Body.term_succ(t):
                if n in can_return or (goal is not None and n in goal):
                    stack.append((n, env, hit))
        return outcomes
    table = {}
    for bits in itertools.product([False, True], repeat=len(atoms)):
        table[bits] = run(dict(zip(atoms, bits)))
    return atoms, table


def same_bool_function(atoms, table, want_atoms, fn):
    """Compare a truth table with the function `fn(dict)` over `want_atoms`.  Returns (ok, message)."""
    if set(atoms) != set(want_atoms):
        return False, f"conditions {sorted(atoms)} (expected {sorted(want_atoms)})"
    for bits, out in table.items():
        v = dict(zip(atoms, bits))
        exp = fn(v)
        if out != {exp}:
            return False, f"for {', '.join(k + '=' + str(x).lower() for k, x in sorted(v.items()))} the result is {sorted(map(str, out))}, expected {exp}"
    return True, f"equals the documented function of {sorted(atoms)} on all {len(table)} valuations"


class Unevaluable(Exception):
    pass


def term_eval(e, leaf):
    """Value of an arithmetic expression tree under an assignment of its leaves: `leaf(e)` returns an int for a
    sub-term it recognises as a variable (or None).  Supported: integer constants, casts, + - * / %, min / max,
    div_ceil, saturating/checked/wrapping add/sub/mul, comparisons (0/1).  Anything else raises Unevaluable.
    This evaluates a *term extracted from MIR*, not remoc code: it is the decision procedure for equivalence of two
    small arithmetic terms over a finite grid."""
    e = mir.strip_casts(e)
    v = leaf(e)
    if v is not None:
        return v
    c = const_value(e)
    if c is not None:
        return c
    if not isinstance(e, tuple) or not e:
        raise Unevaluable(str(e))
    if e[0] == "var" and len(e) > 3 and len(e[3]) == 1 and not e[2]:
        return term_eval(e[3][0], leaf)
    if e[0] in ("try",):
        return term_eval(e[1], leaf)
    if e[0] == "bin":
        a, b_ = term_eval(e[2], leaf), term_eval(e[3], leaf)
        op = e[1]
        if op in ("Add", "AddWithOverflow", "AddUnchecked"):
            return a + b_
        if op in ("Sub", "SubWithOverflow", "SubUnchecked"):
            if a - b_ < 0:
                raise Unevaluable("underflow")
            return a - b_
        if op in ("Mul", "MulWithOverflow", "MulUnchecked"):
            return a * b_
        if op == "Div":
            if b_ == 0:
                raise Unevaluable("div by zero")
            return a // b_
        if op == "Rem":
            if b_ == 0:
                raise Unevaluable("rem by zero")
            return a % b_
        if op in ("Lt", "Le", "Gt", "Ge", "Eq", "Ne"):
            return int({"Lt": a < b_, "Le": a <= b_, "Gt": a > b_, "Ge": a >= b_, "Eq": a == b_, "Ne": a != b_}[op])
        raise Unevaluable(op)
    if e[0] == "proj" and e[2] == ("0",):
        return term_eval(e[1], leaf)     # (value, overflow flag).0 of a checked operation
    if e[0] == "call":
        n = e[1].split("::")[-1]
        args = [term_eval(a, leaf) for a in e[2]] if n in ("min", "max", "div_ceil", "saturating_sub", "saturating_add",
                                                          "wrapping_add", "wrapping_sub", "checked_add", "checked_sub",
                                                          "saturating_mul", "unwrap", "next_multiple_of") else None
        if args is None:
            raise Unevaluable(e[1])
        if n == "min":
            return min(args)
        if n == "max":
            return max(args)
        if n == "div_ceil":
            if args[1] == 0:
                raise Unevaluable("div by zero")
            return -(-args[0] // args[1])
        if n == "next_multiple_of":
            if args[1] == 0:
                raise Unevaluable("div by zero")
            return -(-args[0] // args[1]) * args[1]
        if n == "saturating_sub":
            return max(0, args[0] - args[1])
        if n in ("saturating_add", "wrapping_add", "checked_add"):
            return args[0] + args[1]
        if n in ("wrapping_sub", "checked_sub"):
            if args[0] - args[1] < 0:
                raise Unevaluable("underflow")
            return args[0] - args[1]
        if n == "saturating_mul":
            return args[0] * args[1]
        if n == "unwrap":
            return args[0]
    raise Unevaluable(mir.show(e)[:60])
