"""C03 — flow control liveness: no credit leak, lost wake-up, livelock or port blocking."""
import mir
from mir import callee
from common import *  # noqa: F401,F403

EXPLANATION = (
    "Static MIR rules over remoc's built MIR (before the coroutine transform, so every await is an explicit Yield "
    "= cancellation point). Decided clauses, each a necessary condition of C03: R03.1 every AssignedCredits::take in "
    "sender.rs reaches the enqueue (mpsc Permit::send: cannot suspend, cannot fail) before any Yield/Return, i.e. no "
    "cancellation point or fallible exit between deducting credit and queueing the frame; R03.1b no wait for credit "
    "while a queue permit is held; R03.2 the refill guard of every emit loop guarantees at least one unit of the "
    "amount the loop consumes per iteration (no zero-progress iteration); R03.2b Cfg::check / ExchangedCfg::read "
    "enforce the configuration lower bounds that argument uses; R03.3 AssignedCredits::drop returns the remainder to "
    "the pool; R03.4 credit wait registers its waker under the same lock as the availability test, releases the lock "
    "before suspending and re-tests after wake, provide/close wake every registered waiter; R03.5 the dispatcher's "
    "handle_event / handle_received_msg bodies contain no suspension point; R03.6 credit is requested before the "
    "queue slot. The check decides these clauses on every path of the analysed functions; it does not decide the "
    "liveness behaviour itself."
)
ASSUMPTIONS = [
    "rustc's MIR construction is faithful to the source; unwind (panic) edges are ignored",
    "tokio::sync::mpsc::Permit::send neither suspends nor fails; mpsc::Sender::send/reserve may suspend; try_send/try_reserve may fail",
    "oneshot::Sender::send wakes the receiver; std Mutex is a correct lock",
    "wasm-only code (cfg(target_family=\"wasm\")) and examples/ are not compiled and not covered",
]
NOT_DECIDED = [
    "the return-threshold arithmetic beyond receive buffers of 4..4096 bytes and beyond the arithmetic fragment of R03.9 "
    "(an expression outside it is reported INCONCLUSIVE)",
    "global absence of deadlock across ports/tasks; behaviour of the peer",
]


def r03_1(ck, F):
    ck.rule("R03.1", "every path from AssignedCredits::take to the next Yield / Return / further take passes "
            "mpsc::Permit::send (the frame is queued by a call that cannot suspend or fail)",
            "send cancelled (future dropped at that Yield) while the shared event queue is full, or try_send "
            "hitting a full queue: the deducted credit is never spent nor returned, the port eventually wedges",
            floor=5)
    emit_api_coverage(ck, F)
    for path, b in emit_bodies(F):
        takes = sorted(bb for bb, _ in b.calls(TAKE))
        sends = {bb for bb, _ in b.calls(PERMIT_SEND)}
        ends = set(b.yields()) | set(b.returns())
        for k, t in enumerate(takes):
            goals = ends | (set(takes) - {t})
            p = b.find_path([t], goals, avoid=sends, from_succ=True)
            site = f"{fn_short(path)}#take{k}"
            if p is None:
                ck.ok(site, f"take at {b.loc(t)}: all {len(b.reach([t], avoid=sends))} blocks reachable before a "
                            f"Permit::send contain no Yield/Return", b.loc(t))
            else:
                end = p[-1]
                kind = b.term(end)["t"]
                # what is awaited / called on the offending path
                awaited = ""
                for a in b.awaits():
                    if a["yield_bb"] == end:
                        awaited = f" awaiting {a.get('fut_fn')}"
                lines = []
                for x in p:
                    tt = b.term(x)
                    if tt["t"] == "call":
                        lines.append(f"{b.loc(x)} call {callee(tt)}")
                ck.bad(site, f"credit taken at {b.loc(t)} can reach a {kind}{awaited} at {b.loc(end)} without the "
                             f"frame having been queued by Permit::send", b.loc(t),
                       {"function": path, "take": b.loc(t), "end": b.loc(end), "end_kind": kind,
                        "path_calls": lines[:40]})


def r03_1b(ck, F):
    ck.rule("R03.1b", "no Yield awaiting CreditUser::request is reachable while an mpsc Permit is held "
            "(between the reserve and Permit::send)",
            "stalled port + shared_send_queue=1: the port holds the only queue slot while waiting for credit and "
            "blocks every other port")
    for path, b in emit_bodies(F):
        reserves = sorted(bb for bb, _ in b.calls(MPSC_RESERVE))
        sends = {bb for bb, _ in b.calls(PERMIT_SEND)}
        req_yields = {a["yield_bb"] for a in b.awaits()
                      if a.get("fut_fn") and a["fut_fn"].startswith(REQUEST)}
        for k, r in enumerate(reserves):
            # the permit exists once the reserve future is Ready: start from the ready arm(s) of its await
            starts = [a["ready_bb"] for a in b.awaits()
                      if a.get("ready_bb") is not None and any(o.kind == "call" and o.detail[0] == r for o in a.get("src", ()))]
            if not starts:
                starts = [b.term(r)["tgt"]]   # try_reserve*: result available right after the call
            p = b.find_path(starts, req_yields, avoid=sends)
            site = f"{fn_short(path)}#reserve{k}"
            ck.expect(p is None, site, f"no credit wait while the permit of {b.loc(r)} is live",
                      f"credit wait at {b.loc(p[-1]) if p else ''} reachable while holding the permit reserved at {b.loc(r)}",
                      b.loc(r))


def _lower_bound_after_guard(ck, b, q, site):
    """Lower bound on AssignedCredits::available() after the (conditional) refill `q` (a request call
    block): min(bound implied by not refilling, min_req)."""
    t = b.term(q)
    min_req = const_value(b.expr(t["a"][2]))
    if min_req is None:
        return None, f"min_req of request at {b.loc(q)} is not a constant: {mir.show(b.expr(t['a'][2]))}"
    edges = controlling_edges(b, q)
    # nearest controlling switch whose scrutinee talks about the credits
    for s, tb, v in edges:
        e = switch_expr(b, s)
        taken = switch_meaning(b, s, v)
        if e[0] == "call" and e[1] == CREDITS_IS_EMPTY:
            # refill iff is_empty() == taken ; skipping refill means !is_empty => available >= 1
            if taken is True:
                return min(1, min_req), f"refill guard is_empty() at {b.loc(s)}, min_req={min_req}"
            return 0, f"refill happens when credits are NOT empty at {b.loc(s)}"
        if e[0] == "bin" and e[1] in ("Lt", "Le", "Gt", "Ge", "Eq", "Ne") and \
                any(c[1] == AVAILABLE for c in mir.calls_in(e)):
            lhs_av = any(c[1] == AVAILABLE for c in mir.calls_in(e[2]))
            other = e[3] if lhs_av else e[2]
            k = const_value(other)
            if k is None:
                return None, f"refill guard at {b.loc(s)} compares available() with a non-constant"
            op = e[1]
            if not lhs_av:
                op = {"Lt": "Gt", "Le": "Ge", "Gt": "Lt", "Ge": "Le"}.get(op, op)
            # refill iff (available op k) == taken ; the no-refill path satisfies the negation
            if taken is True:
                neg = {"Lt": k, "Le": k + 1, "Eq": 0, "Ne": k, "Gt": 0, "Ge": 0}[op]
            else:
                neg = {"Ge": k, "Gt": k + 1, "Eq": k, "Ne": 0, "Lt": 0, "Le": 0}[op]
            return min(neg, min_req), f"refill guard available() {op} {k} at {b.loc(s)}, min_req={min_req}"
    return None, f"no interpretable refill guard found for request at {b.loc(q)}"


def r03_2(ck, F):
    ck.rule("R03.2", "in every emit loop of sender.rs the refill guard + min_req guarantee at least one unit of the "
            "per-iteration amount: lower bound of available() after the refill >= the divisor applied to it (1 if none)",
            "two ports sent with 5..7 credits left: first batch takes 4, 1..3 remain, refill is skipped because "
            "credits are not empty, max_ports = 0 -> endless empty PortData frames (livelock)", floor=2)
    for path, b in emit_bodies(F):
        backs = b.back_edges()
        heads = sorted({h for _, h in backs})
        n = 0
        for h in heads:
            loop = b.loop_blocks(h)
            takes = [bb for bb, _ in b.calls(TAKE) if bb in loop]
            reqs = [bb for bb, _ in b.calls(REQUEST) if bb in loop]
            if not takes or not reqs:
                continue
            # skip await poll loops (they contain a Yield and no take) - handled by the `takes` filter
            # inner-most loop only: ignore if a strictly smaller loop also has the take
            site = f"{fn_short(path)}#loop{n}"
            n += 1
            # unit: divisor applied to a value derived from available() inside the loop
            unit = 1
            unit_loc = None
            for bb, i, s in b.assigns(lambda s: s["rv"]["r"] == "bin" and s["rv"]["op"] == "Div"):
                if bb not in loop:
                    continue
                e = b.expr(["c", s["p"]])
                if e[0] == "bin" and any(c[1] == AVAILABLE for c in mir.calls_in(e[2])):
                    k = const_value(e[3])
                    if k is None:
                        ck.inconclusive(site, f"divisor at {b.loc(bb, i)} is not constant", b.loc(bb, i))
                        k = 1
                    if k > unit:
                        unit, unit_loc = k, b.loc(bb, i)
            for q in reqs:
                lb, why = _lower_bound_after_guard(ck, b, q, site)
                if lb is None:
                    ck.inconclusive(site, why, b.loc(q))
                    continue
                ck.expect(lb >= unit, site,
                          f"available() >= {lb} after refill ({why}); per-iteration unit {unit}",
                          f"available() is only guaranteed >= {lb} after the refill ({why}) but the loop consumes "
                          f"credit in units of {unit} ({unit_loc}): an iteration can make zero progress", b.loc(q),
                          {"function": path, "lower_bound": lb, "unit": unit, "unit_at": unit_loc, "why": why})


def r03_2b(ck, F):
    ck.rule("R03.2b", "Cfg::check panics and ExchangedCfg::read returns Err unless chunk_size >= 4, "
            "receive_buffer >= 4 and the queue lengths are >= 1 (the facts R03.2 relies on)",
            "a peer announcing chunk_size 0..3 would make every port batch empty", floor=5)
    # Cfg::check: the normal return is reached only under `self.<field> >= lo` (the other side diverges)
    b = F.body("chmux::cfg::Cfg::check")

    def lower_bound(body, at, is_value):
        """Largest k such that `value >= k` is among the conditions controlling block `at` (any spelling)."""
        best = None
        for e, m in conds(body, at):
            if m is True and isinstance(e, tuple) and e[0] == "bin" and e[1] == "Ge" and is_value(e[2]):
                k = const_value(e[3])
                if k is not None and (best is None or k > best):
                    best = k
        return best
    rets = b.returns()
    need = {"chunk_size": 4, "receive_buffer": 4}
    for fld, lo in need.items():
        ks = [lower_bound(b, r, lambda x, f=fld: any(p == "self." + f for p in mir.paths_in(x))) for r in rets]
        ok = bool(rets) and all(k is not None and k >= lo for k in ks)
        ck.expect(ok, f"Cfg::check#{fld}", f"returns normally only under self.{fld} >= {min([k for k in ks if k is not None] or [0])}",
                  f"Cfg::check does not enforce {fld} >= {lo} (bounds found on the returning paths: {ks})", b.loc(0))
    # ExchangedCfg::read: the value stored into each field of the returned aggregate is guarded by a comparison
    b = F.body("chmux::msg::ExchangedCfg::read")
    aggs = list(b.aggregates("chmux::msg::ExchangedCfg"))
    if not aggs:
        raise mir.AnchorMissing("ExchangedCfg aggregate in ExchangedCfg::read")
    abb, ai, rv = aggs[0]
    for fld, lo in {"chunk_size": 4, "port_receive_buffer": 4, "connect_queue": 1}.items():
        o = rv["ops"][rv["fields"].index(fld)]
        src = {c[3] for c in mir.calls_in(b.expr(o))}
        k = lower_bound(b, abb, lambda x: bool({c[3] for c in mir.calls_in(x)} & src))
        ck.expect(k is not None and k >= lo, f"ExchangedCfg::read#{fld}", f"{fld} reaches the returned value only if >= {k}",
                  f"ExchangedCfg::read does not enforce {fld} >= {lo} (lower bound established on the way to the returned value: {k})",
                  b.loc(abb, ai))


def r03_8(ck, F):
    ck.rule("R03.8", "no credit request can demand more than the smallest window a peer may legally advertise: the "
            "`min_req` argument of every CreditUser::request call (the amount the caller insists on before it continues) is "
            "at most the lower bound that ExchangedCfg::read enforces for port_receive_buffer",
            "a peer with receive_buffer < min_req (legal: the handshake only demands >= 4): the request can never be "
            "satisfied, the send / port transfer hangs forever although the receiver is idle and has returned all credit",
            floor=3)
    rb = F.body("chmux::msg::ExchangedCfg::read")
    aggs = list(rb.aggregates("chmux::msg::ExchangedCfg"))
    if not aggs:
        raise mir.AnchorMissing("ExchangedCfg aggregate in ExchangedCfg::read")
    abb, ai, rv = aggs[0]
    o = rv["ops"][rv["fields"].index("port_receive_buffer")]
    src = {c[3] for c in mir.calls_in(rb.expr(o))}
    window = None
    for e, m in conds(rb, abb):
        if m is True and isinstance(e, tuple) and e[0] == "bin" and e[1] == "Ge" and {c[3] for c in mir.calls_in(e[2])} & src:
            k = const_value(e[3])
            if k is not None and (window is None or k > window):
                window = k
    if window is None:
        raise mir.AnchorMissing("lower bound of port_receive_buffer in ExchangedCfg::read")
    n = 0
    for b in F.by_dp.values():
        if b.crate != "remoc":
            continue
        for k, (bb, t) in enumerate(b.calls(REQUEST)):
            n += 1
            e = mir.strip_casts(b.expr(t["a"][2]))
            site = f"{fn_short(b.path)}#request{k}-min_req"
            c = const_value(e)
            if c is not None:
                ck.expect(c <= window, site, f"min_req = {c} <= smallest legal window {window}",
                          f"{fn_short(b.path)} insists on {c} credits, more than the smallest window a peer may advertise ({window})",
                          b.loc(bb))
                continue
            # non-constant: can it exceed the window for a legal configuration / input?

            def leaf(x):
                if mir.last_field(x) == "chunk_size":
                    return 16384
                if x[0] == "call" and x[1].split("::")[-1] == "len":
                    return 1000
                if x[0] == "call" and x[1].split("::")[-1] == "available":
                    return 0
                return None
            try:
                v = term_eval(e, leaf)
            except Unevaluable as ex:
                ck.inconclusive(site, f"min_req = {mir.show(e)[:60]} outside the arithmetic fragment ({ex})", b.loc(bb))
                continue
            ck.expect(v <= window, site, f"min_req = {mir.show(e)[:50]} stays <= {window}",
                      f"{fn_short(b.path)} insists on min_req = {mir.show(e)[:80]}, which is {v} for chunk_size = 16384 and 1000 "
                      f"pending elements: more than the smallest legal window ({window}); against such a peer the request never "
                      f"completes", b.loc(bb))
    ck.expect(n >= 3, "request#sites", f"{n} CreditUser::request call sites", f"only {n} call sites of CreditUser::request found", None)


def r03_9(ck, F):
    ck.rule("R03.9", "the return threshold leaves the sender room for a port: in ChannelCreditReturner::start_return consumed "
            "credit is sent back as soon as to_return reaches a threshold t(limit); for every legal receive buffer "
            "(4 <= limit <= 4096, the lower bound being what Cfg::check / ExchangedCfg::read enforce) the credit an idle "
            "receiver may still be holding back (t - 1 for `>=`, t for `>`) leaves the sender at least 4 credits, and t >= 1",
            "receive_buffer = 6 with a threshold of limit/2 + 1 = 4: the receiver consumed everything but keeps 3 credits "
            "back, the sender has 3 and waits for 4 to announce a port — both sides idle, the port transfer never happens",
            floor=1)
    b = F.body("chmux::credit::ChannelCreditReturner::start_return")
    aggs = list(b.aggregates(PORT_EVT, "ReturnCredits"))
    if not aggs:
        raise mir.AnchorMissing("ReturnCredits construction in start_return")
    abb = aggs[0][0]
    cmp_ = None
    for e, m in conds(b, abb):
        if m is True and isinstance(e, tuple) and e[0] == "bin" and e[1] in ("Ge", "Gt") and "to_return" in mir.show(e[2]):
            cmp_ = e
    if cmp_ is None:
        raise mir.AnchorMissing("comparison of to_return with the threshold guarding ReturnCredits")
    strict = cmp_[1] == "Gt"
    thr = cmp_[3]

    def leaf(limit):
        def f(x):
            if mir.last_field(x) == "limit":
                return limit
            return None
        return f

    def value(limit):
        """threshold for this limit: the definition of the threshold variable whose controlling conditions hold"""
        if isinstance(thr, tuple) and thr[0] == "var" and not thr[2]:
            locs = b.local_by_name(thr[1])
            if not locs and thr[1].startswith("_") and thr[1][1:].isdigit():
                locs = [int(thr[1][1:])]           # an unnamed local (e.g. the result of a spliced-in helper)
            for d in (b.defs.get(locs[0], []) if locs else []):
                if d[0] != "assign":
                    continue
                ok = True
                for e, m in conds(b, d[1]):
                    if isinstance(m, bool) and isinstance(e, tuple) and e[0] == "bin" and "limit" in mir.field_leaves(e):
                        try:
                            ok = ok and (bool(term_eval(e, leaf(limit))) == m)
                        except Unevaluable:
                            pass
                if ok:
                    rv = d[3]["rv"]
                    ex = ("bin", rv["op"], b.expr(rv["a"]), b.expr(rv["b"])) if rv["r"] == "bin" else b.expr(rv["o"])
                    return term_eval(ex, leaf(limit))
            raise Unevaluable("no definition of the threshold applies")
        return term_eval(thr, leaf(limit))
    cex = None
    try:
        for limit in range(4, 4097):
            t = value(limit)
            held = t if strict else t - 1
            if t < 1 or limit - held < 4:
                cex = (limit, t, limit - held)
                break
    except Unevaluable as ex:
        ck.inconclusive("start_return#threshold", f"threshold {mir.show(thr)[:60]} outside the arithmetic fragment ({ex})", b.loc(abb))
        ck.ok("start_return#threshold-site", "threshold comparison found (value not decided)", b.loc(abb), nontrivial=False)
        return
    ck.expect(cex is None, "start_return#threshold",
              f"to_return {'>' if strict else '>='} t(limit): an idle receiver leaves the sender >= 4 credits for all 4 <= limit <= 4096",
              f"for receive_buffer = {cex[0] if cex else ''} the return threshold is {cex[1] if cex else ''}: an idle receiver can hold back "
              f"so much credit that the sender is left with {cex[2] if cex else ''} (< 4, the cost of announcing one port)", b.loc(abb),
              {"counterexample": {"limit": cex[0], "threshold": cex[1], "sender_credits": cex[2]} if cex else None})


def r03_3(ck, F):
    ck.rule("R03.3", "AssignedCredits has a Drop impl whose body adds self.port to the pool's credits",
            "a send that fails or is cancelled after requesting credit: the unused credit is lost", floor=1)
    if not F.has_impl("chmux::credit::AssignedCredits", "std::ops::Drop"):
        ck.bad("AssignedCredits#Drop", "AssignedCredits has no Drop impl", None)
        return
    b = F.body("<chmux::credit::AssignedCredits as std::ops::Drop>::drop")
    hit = None
    for bb, i, s in b.field_stores("credits"):
        e = b.expr(["c", s["p"]]) if False else None
        # the stored value: result of an Add whose operands are the old credits and self.port
        src = b.expr(s["rv"]["o"]) if s["rv"]["r"] == "use" else None
        adds = [c for c in mir.calls_in(src)] if src else []
        is_add = src and (src[0] == "bin" and src[1] == "Add" or
                          any(c[1].split("::")[-1] in ("saturating_add", "checked_add", "wrapping_add") for c in adds))
        if is_add and any(p == "self.port" for p in mir.paths_in(src)):
            hit = (bb, i)
    ck.expect(hit is not None, "AssignedCredits::drop", "drop stores credits + self.port into the pool",
              "AssignedCredits::drop does not add self.port back to the pool", b.loc(0))


def r03_4(ck, F):
    ck.rule("R03.4", "CreditUser::request: availability test and waiter registration use one MutexGuard, the guard is "
            "dropped before the Yield and the loop re-tests after every wake; CreditProvider::provide/close take the "
            "waiter list after the state update and signal every taken waiter",
            "credit arrives between the test and the registration (or the waiter list is not drained): the sender "
            "sleeps forever although credit is available", floor=4)
    b = F.main_body(REQUEST)
    locks = [bb for bb, _ in b.calls("std::sync::Mutex::lock")]
    ck.expect(len(locks) == 1, "request#single-lock", "exactly one Mutex::lock in CreditUser::request",
              f"{len(locks)} Mutex::lock calls in CreditUser::request: test and registration may use different "
              f"critical sections", b.loc(locks[0]) if locks else b.loc(0))
    if len(locks) != 1:
        return
    lock = locks[0]
    # guard local: destination of the unwrap of the lock result
    guard = None
    for bb, t in b.calls("std::result::Result::unwrap"):
        e = b.expr(t["a"][0])
        if e[0] == "call" and e[1] == "std::sync::Mutex::lock":
            guard = t["d"][0]
    if guard is None:
        raise mir.AnchorMissing("MutexGuard local of CreditUser::request")
    pushes = [(bb, t) for bb, t in b.calls("std::vec::Vec::push")
              if any(p.endswith("notify") for x in mir.walk(b.expr(t["a"][0])) if isinstance(x, tuple) and x[0] == "proj" for p in x[2])
              or "notify" in mir.show(b.expr(t["a"][0]))]
    ck.expect(len(pushes) >= 1, "request#register", "waiter is pushed to the notify list",
              "no push to the notify list found", b.loc(lock))
    drops = {bb for bb in b.reachable if b.term(bb)["t"] == "drop" and b.term(bb)["p"] == [guard]}
    for bb, t in pushes:
        # between the lock and the push the guard is not dropped
        p = b.find_path([lock], [bb], avoid=drops)
        ck.expect(p is not None and b.dominates(lock, bb), "request#test-and-register-atomic",
                  "the waiter registration is reached from the lock without releasing the guard",
                  "the guard is released between the availability test and the waiter registration", b.loc(bb))
        # the comparison guarding the push reads the same guard
        ce = [(s, v) for s, tb, v in controlling_edges(b, bb)
              if "credits" in mir.show(switch_expr(b, s)) and switch_expr(b, s)[0] == "bin"]
        ck.expect(bool(ce), "request#test-guards-register", "registration is control-dependent on the credits test",
                  "registration is not guarded by the credits comparison", b.loc(bb))
    # guard dropped before any Yield
    for y in b.yields():
        p = b.find_path([lock], [y], avoid=drops)
        ck.expect(p is None, "request#guard-released-before-yield",
                  f"every path lock -> Yield({b.loc(y)}) drops the guard first",
                  f"the pool lock can be held across the await at {b.loc(y)}", b.loc(y))
    # after wake the loop re-tests: from the resume of each Yield the lock call is reachable, and no Return
    # is reachable from the ready arm without passing the lock again
    for a in b.awaits():
        if a.get("ready_bb") is None:
            continue
        rets = {bb for bb, _, _ in b.result_stores("Ok")}
        p = b.find_path([a["ready_bb"]], rets, avoid=[lock])
        ck.expect(p is None and lock in b.reach([a["ready_bb"]]), "request#retest-after-wake",
                  "after a wake-up the pool is locked and tested again before returning",
                  "request can return after a wake-up without re-testing the pool", b.loc(a["yield_bb"]))
    # provide / close
    for fn in ("chmux::credit::CreditProvider::provide", "chmux::credit::CreditProvider::close"):
        fb = F.body(fn)
        takes = [bb for bb, t in fb.calls("std::mem::take") if "notify" in mir.show(fb.expr(t["a"][0]))]
        sends = [bb for bb, _ in fb.calls("tokio::sync::oneshot::Sender::send")]
        name = fn.split("::")[-1]
        ok = bool(takes) and bool(sends)
        if ok:
            # every Ok/normal return passes the take; the state store precedes the take
            stores = [bb for bb, i, s in fb.field_stores("credits")] + [bb for bb, i, s in fb.field_stores("closed")]
            ok = any(fb.find_path([s], takes) for s in stores) if stores else False
            # signalling loop is fed by the taken list
            it = [bb for bb, t in fb.calls("std::iter::IntoIterator::into_iter")
                  if any(c[1] == "std::mem::take" for c in mir.calls_in(fb.expr(t["a"][0])))
                  or "notify" in mir.show(fb.expr(t["a"][0]))]
            ok = ok and bool(it)
        ck.expect(ok, f"CreditProvider::{name}#wake-all",
                  "state update, then mem::take(notify), then every taken waiter is signalled",
                  f"CreditProvider::{name} does not drain and signal the waiter list after updating the state",
                  fb.loc(takes[0]) if takes else fb.loc(0))


def _signals_every_taken_waiter(fb, field):
    """The waiter list `field` is taken as a whole (mem::take) and every element of exactly that list is signalled:
    some oneshot send has the receiver `next(into_iter(mem::take(<..>.field)))` inside the iteration loop, and nothing is
    put back into the list."""
    sends = [(bb, t) for bb, t in fb.calls("tokio::sync::oneshot::Sender::send")]
    for bb, t in sends:
        e = fb.expr(t["a"][0])
        nx = [c for c in mir.calls_in(e, "std::iter::Iterator::next")]
        for n in nx:
            it = n[2][0] if n[2] else None
            while isinstance(it, tuple) and it and it[0] == "call" and it[1] == "std::iter::IntoIterator::into_iter" and it[2]:
                it = it[2][0]
            if isinstance(it, tuple) and it and it[0] == "call" and it[1] == "std::mem::take" and it[2] and \
                    mir.last_field(it[2][0]) == field:
                in_loop = any(bb in fb.loop_blocks(h) and n[3] in fb.loop_blocks(h) for _, h in fb.back_edges())
                put_back = list(fb.field_stores(field)) or [1 for q, tt in fb.calls() if tt["fn"].get("recv") == "mut" and tt["a"] and
                                                            mir.last_field(fb.expr(tt["a"][0])) == field and
                                                            (callee(tt) or "").split("::")[-1] in ("push", "extend", "append", "insert")]
                if in_loop and not put_back:
                    return True
    return False


def r03_4b(ck, F):
    ck.rule("R03.4b", "wake-ups are broadcast, never a single token: CreditProvider::provide / close and PortNumber::drop take "
            "the whole waiter list and signal every element of it; nothing is put back",
            "two tasks wait for a local port, one is released, the (single) notified waiter is cancelled before it runs "
            "again: the other waiter sleeps forever although a port is free (same for credit waiters)", floor=3)
    for fn, field in (("chmux::credit::CreditProvider::provide", "notify"), ("chmux::credit::CreditProvider::close", "notify"),
                      ("<chmux::port_allocator::PortNumber as std::ops::Drop>::drop", "notify_tx")):
        fb = F.body(fn)
        name = fn.split(" as ")[0].split("::")[-1].strip("<") + "::" + fn.split("::")[-1]
        ck.expect(_signals_every_taken_waiter(fb, field), f"{name}#wake-all", f"every waiter in `{field}` is signalled",
                  f"{fn} does not signal every element of the waiter list `{field}` it takes (single wake-up token, filtered "
                  f"list, or waiters put back)", fb.loc(0))


def r03_5(ck, F):
    ck.rule("R03.5", "the coroutine bodies of ChMux::handle_event and ChMux::handle_received_msg contain no Yield "
            "(only Permit::send, unbounded send, try_send)",
            "one port whose receiver does not consume would stop every port of the connection", floor=2)
    for fn in (HANDLE_EVENT, HANDLE_RECEIVED):
        fam = F.family(fn)
        main = F.main_body(fn)
        ys = main.yields()
        ck.expect(not ys, fn_short(fn) + "#no-yield", f"{main.n} blocks, no Yield terminator",
                  f"dispatcher body suspends at {main.loc(ys[0]) if ys else ''}", main.loc(0))
        # the wrappers (#[instrument]) only await the main body
        for b in fam:
            if b is main or b.kind != "coroutine":
                continue
            for a in b.awaits():
                ck.expect((a.get("fut_fn") or "").startswith(fn.replace("::<TransportSink, TransportStream>", "")) or
                          "Instrumented" in a.get("fut_ty", "") or b.path.startswith(main.path),
                          fn_short(fn) + "#wrapper-await", "wrapper awaits only the instrumented body",
                          f"wrapper {b.path} awaits {a.get('fut_ty')}", b.loc(a["yield_bb"]), )


def r03_6(ck, F):
    ck.rule("R03.6", "in each emit function the credit request await precedes the queue slot acquisition "
            "(reserve / send) of the same iteration",
            "a port that waits for credit while owning queue capacity starves the others")
    for path, b in emit_bodies(F):
        reqs = [bb for bb, _ in b.calls(REQUEST)]
        slots = [bb for bb, _ in b.calls(MPSC_RESERVE | {MPSC_SEND})]
        if not reqs or not slots:
            continue
        for k, s in enumerate(sorted(slots)):
            # some request dominates the slot acquisition, or the slot is reachable only after a request
            ok = any(b.dominates(r, s) for r in reqs) or b.find_path([0], [s], avoid=reqs) is not None and \
                any(s in b.reach([r]) for r in reqs)
            p = b.find_path([0], [s], avoid=reqs)
            # a path without request is fine when credit is still held from the previous iteration; the rule is
            # about ordering: no request is reachable from the slot acquisition before the enqueue
            sends = {bb for bb, _ in b.calls(PERMIT_SEND | {MPSC_SEND})}
            ck.expect(ok, f"{fn_short(path)}#slot{k}", "credit is requested before the queue slot",
                      "queue slot acquired without any preceding credit request", b.loc(s))


def r03_7(ck, F):
    ck.rule("R03.7", "deferred credit returns survive cancellation: ChannelCreditReturner::return_flush polls the "
            "pending return future in place; the slot self.return_fut is emptied (store of None / take / replace) only "
            "where no Yield can follow, and start_return parks the message in that slot when the event queue is full",
            "receive call cancelled while the shared event queue is full: the parked ReturnCredits message is dropped "
            "with the future, the peer never gets its credits back and its sender wedges", floor=2)
    b = F.main_body("chmux::credit::ChannelCreditReturner::return_flush")
    empt = set()
    for bb, i, s in b.field_stores("return_fut"):
        empt.add(bb)
    for bb, t in b.calls(("std::option::Option::take", "std::mem::take", "std::mem::replace", "std::option::Option::replace")):
        if t["a"] and mir.last_field(b.expr(t["a"][0])) == "return_fut":
            empt.add(bb)
    ys = set(b.yields())
    ck.expect(bool(ys), "return_flush#awaits", "awaits the parked future", "return_flush no longer awaits", b.loc(0))
    bad = [e for e in empt if b.reach([e], include_start=False) & ys]
    ck.expect(not bad, "return_flush#slot-kept-across-await",
              f"{len(empt)} emptying site(s) of self.return_fut, none followed by a Yield",
              f"self.return_fut is emptied at {[b.loc(x) for x in bad]} before an await: cancelling the receive call there "
              f"drops the parked credit return", b.loc(bad[0]) if bad else b.loc(0))
    sb = F.body("chmux::credit::ChannelCreditReturner::start_return")
    parks = [bb for bb, i, s in sb.field_stores("return_fut")]
    ok = False
    for bb in parks:
        ce = conds(sb, bb)
        ok = ok or any(e[0] == "discr" and mir.calls_in(e, MPSC_TRY_SEND) and m in ("Full", "Err") for e, m in ce)
    ck.expect(ok, "start_return#park-when-full", "a Full try_send parks the message in self.return_fut",
              "start_return drops the ReturnCredits message when the event queue is full", sb.loc(0))


def run(ck, F):
    for r in (r03_1, r03_1b, r03_2, r03_2b, r03_3, r03_4, r03_4b, r03_5, r03_6, r03_7, r03_8, r03_9):
        ck.run_rule(r)
    import c02
    ck.run_rule(c02.r02_6)     # sender pays max(len, 1): a receiver that books less leaks one credit per empty frame
    ck.run_rule(c02.r02_1b)
    import c11
    ck.run_rule(c11.r11_6)     # every frame taken from the port queue has its credit handed to start_return on every path (also the refusing ones): a dropped UsedCredit is lost for good
