"""C20 — handles and lazy values: confinement, type safety, fidelity, release."""
import mir
from mir import callee
from common import *  # noqa: F401,F403
from robs_common import event_arms

EXPLANATION = (
    "Static rules for handles and lazy blobs: R20.1 the value never travels: TransportedHandle carries only an id, the "
    "drop-notification sender and PhantomData; State::Remote has no entry; into_inner / as_ref / as_mut produce Ok only in "
    "the arms of states that own an entry (LocalCreated, LocalReceived); R20.2 the dynamic type check dominates "
    "exposure: every Ok result of those methods is control-dependent on <dyn Any>::is::<T>() == true or on the Ok arm of "
    "Box<dyn Any>::downcast::<T>(); handle.rs and any_storage.rs contain no unsafe block and no unchecked downcast; R20.3 "
    "re-attachment only through the connection's storage: State::LocalReceived is built only from the Some result of "
    "AnyStorage::remove(id) on the storage handed out by PortDeserializer::storage(); ChMux::new creates one storage per "
    "connection; R20.4 release: the task spawned at first serialization ends with handle_storage.remove(id) on every "
    "path; R20.5 lazy blob: rx.set_max_data_size(len) with the advertised length dominates rx.recv(), the fetch future is "
    "created only when none exists, and every error of the chain is propagated. Equality of fetched data and release "
    "timing across endpoints are not decided."
)
ASSUMPTIONS = ["std::any::Any downcasts are sound; Uuid v4 ids do not collide",
               "rch::mpsc / bin channels deliver the blob bytes intact (C01, C04)"]
NOT_DECIDED = ["equality of fetched data with what was provided", "release timing across endpoints and all drop orders"]

H = "robj::handle"
ST = f"{H}::State"


def r20_1(ck, F):
    ck.rule("R20.1", "the value never travels: TransportedHandle has no field that could hold the value; State::Remote has "
            "no entry; into_inner / as_ref / as_mut obtain the entry only in the LocalCreated / LocalReceived arms",
            "a handle deserialized on another endpoint yields some value instead of an error", floor=5)
    th = F.adt_fields(f"{H}::TransportedHandle")
    tys = {k: v["ty"] for k, v in th.items()}
    bad = [k for k, t in tys.items() if not (t == "uuid::Uuid" or t.startswith("rch::mpsc::sender::Sender<()") or t.startswith("std::marker::PhantomData<"))]
    ck.expect(not bad and set(tys) == {"id", "dropped_tx", "data", "codec"}, "TransportedHandle#fields", f"{tys}",
              f"TransportedHandle fields {tys}: unexpected {bad}", None)
    rem = F.adt_fields(ST, "Remote")
    ck.expect("entry" not in rem, "State::Remote#no-entry", "Remote carries no entry", "State::Remote has an entry field", None)
    for m in ("into_inner", "as_ref", "as_mut"):
        b = F.main_body(f"{H}::Handle::{m}")
        arms, sw, _ = event_arms(b, ST)
        oks = [bb for bb, i, v in b.result_stores("Ok")]
        owning = set()
        for v in ("LocalCreated", "LocalReceived"):
            if v in arms:
                owning |= b.reach([arms[v][1]])
        other_targets = [arms[v][1] for v in arms if v not in ("LocalCreated", "LocalReceived")]
        leak = b.find_path(other_targets, oks, avoid=[arms[v][1] for v in ("LocalCreated", "LocalReceived") if v in arms]) if other_targets else None
        # states without entry go straight to Err(Unknown)
        ok = bool(oks) and leak is None
        ck.expect(ok, f"Handle::{m}#only-owning-states", "Ok only reachable from states that own an entry",
                  f"Handle::{m} can produce Ok for a state without entry", b.loc(sw))


def r20_2(ck, F):
    ck.rule("R20.2", "type check dominates exposure: every Ok of into_inner / as_ref / as_mut is control-dependent on "
            "<dyn Any>::is::<T>() being true or on the Ok arm of Box<dyn Any>::downcast::<T>(); no unsafe block, no "
            "downcast_unchecked in handle.rs / any_storage.rs",
            "Handle::cast::<U>() followed by access: a value exposed at the wrong type", floor=4)
    for m in ("into_inner", "as_ref", "as_mut"):
        b = F.main_body(f"{H}::Handle::{m}")
        oks = [(bb, i) for bb, i, v in b.result_stores("Ok")]
        ok = bool(oks)
        for bb, i in oks:
            ce = [(switch_expr(b, s), switch_meaning(b, s, v)) for s, tb, v in controlling_edges(b, bb)]
            good = False
            for e, mng in ce:
                calls = [c[1] for c in mir.calls_in(e)]
                if any(c.endswith("Any::is") or c.endswith(">::is") or "::is" == c[-4:] for c in calls) and mng is True:
                    good = True
                if e[0] == "discr" and any("downcast" in c for c in calls) and mng == "Ok":
                    good = True
            ok = ok and good
        ck.expect(ok, f"Handle::{m}#type-checked", "Ok guarded by the dynamic type test",
                  f"Handle::{m} exposes the value without a dynamic type check on every Ok path", b.loc(oks[0][0]) if oks else b.loc(0))
    ub = [u for u in F.unsafe_blocks if u["crate"] == "remoc" and u.get("user") and not u.get("x") and
          u["file"].endswith(("robj/handle.rs", "chmux/any_storage.rs"))]
    unchecked = [(b.path, bb) for b in F.by_dp.values() if b.crate == "remoc" and b.file.endswith(("robj/handle.rs", "chmux/any_storage.rs"))
                 for bb, t in b.calls() if "unchecked" in (callee(t) or "") and "downcast" in (callee(t) or "")]
    ck.expect(not ub and not unchecked, "handle#no-unsafe", "no unsafe block / unchecked downcast",
              f"unsafe: {[(u['file'], u['line']) for u in ub]} unchecked: {unchecked}", None)


def r20_3(ck, F):
    ck.rule("R20.3", "re-attachment: State::LocalReceived is constructed only under the Some result of "
            "AnyStorage::remove(id) on PortDeserializer::storage(); ChMux::new creates the storage (one per connection)",
            "a handle id guessed / replayed on another connection attaches to a foreign value", floor=2)
    sites = [(b, bb, i, rv) for b in F.by_dp.values() if b.crate == "remoc" for bb, i, rv in b.aggregates(ST, "LocalReceived")]
    ok = len(sites) >= 1
    for b, bb, i, rv in sites:
        if "Clone" in b.path:
            continue
        e = b.expr(rv["ops"][rv["fields"].index("entry")])
        rm = mir.calls_in(e, "chmux::any_storage::AnyStorage::remove")
        st = bool(rm) and bool(mir.calls_in(rm[0][2][0], "rch::base::receiver::PortDeserializer::storage"))
        ce = [(switch_expr(b, s), switch_meaning(b, s, v)) for s, tb, v in controlling_edges(b, bb)]
        some = any(x[0] == "discr" and mir.calls_in(x, "chmux::any_storage::AnyStorage::remove") and m == "Some" for x, m in ce)
        ck.expect(st and some, f"State::LocalReceived@{mir.strip_generics(b.path)}", "entry = storage.remove(id) of this connection",
                  f"LocalReceived constructed from {mir.show(e)[:80]}", b.loc(bb, i))
    nb = F.main_body("chmux::mux::ChMux::new")
    news = [bb for bb, t in nb.calls("chmux::any_storage::AnyStorage::new")]
    ck.expect(len(news) == 1, "ChMux::new#one-storage", "one AnyStorage per connection", f"{len(news)} AnyStorage::new calls", nb.loc(0))


def r20_4(ck, F):
    ck.rule("R20.4", "release: the watcher task spawned when a created handle is first serialized calls "
            "handle_storage.remove(id) on every path to its end", "the stored value is never released (leak) after all "
            "handles are gone", floor=1)
    ser = [b for k, b in F.bodies.items() if k.startswith(f"<{H}::Handle") and k.endswith("Serialize>::serialize")]
    if not ser:
        raise mir.AnchorMissing("Serialize for Handle")
    tasks = [k for k in F.children.get((ser[0].crate, ser[0].dp), []) if k.kind == "coroutine"]
    ok = False
    for k in tasks:
        rm = {bb for bb, t in k.calls("chmux::any_storage::AnyStorage::remove")}
        if rm:
            ok = k.find_path([0], k.returns(), avoid=rm) is None
    ck.expect(ok, "Handle::serialize#release-task", "remove(id) on every path to the end of the watcher task",
              "the watcher task can end without removing the stored entry", ser[0].loc(0))


def r20_5(ck, F):
    ck.rule("R20.5", "lazy blob: in the fetch future rx.set_max_data_size(len) with len = the advertised length dominates "
            "rx.recv(); the future is created only when the slot is empty; connection / receive errors map to FetchError",
            "a blob larger than advertised is accepted, or a cut-short transfer yields a truncated Ok", floor=3)
    fam = F.family("robj::lazy_blob::LazyBlob::fetch")
    main = F.main_body("robj::lazy_blob::LazyBlob::fetch")
    task = [x for x in fam if x.kind == "coroutine" and list(x.calls("chmux::receiver::Receiver::set_max_data_size"))]
    if not task:
        raise mir.AnchorMissing("fetch future of LazyBlob::fetch")
    k = task[0]
    sm = [(bb, t) for bb, t in k.calls("chmux::receiver::Receiver::set_max_data_size")]
    rv = [a for a in k.awaits() if (a.get("fut_fn") or "").startswith("chmux::receiver::Receiver::recv")]
    arg = k.expr(sm[0][1]["a"][1])
    ok = bool(rv) and all(k.dominates(sm[0][0], a["poll_bb"]) for a in rv) and arg[0] == "path" and arg[1].split(".")[0] == "len"
    src_ok = False
    for o in F.upvar_origins(k, "len"):
        if o.kind == "call" and o.detail[1].endswith("LazyBlob::len"):
            src_ok = True
    # `len` upvar comes from self.len()? in the parent
    if not src_ok:
        for bb, t in main.calls():
            if (callee(t) or "").endswith("LazyBlob::len"):
                src_ok = True
    ck.expect(ok and src_ok, "LazyBlob::fetch#limit-before-recv", "receive limit = advertised length, set before recv",
              f"recv is not preceded by set_max_data_size(advertised len) (arg {mir.show(arg)})", k.loc(sm[0][0]))
    aggs = [(bb, i) for bb, i, s in main.assigns() if s["rv"]["r"] == "agg" and s["rv"].get("dp") == k.dp]
    ok = bool(aggs)
    for bb, i in aggs:
        ce = [(switch_expr(main, s), switch_meaning(main, s, v)) for s, tb, v in controlling_edges(main, bb)]
        ok = ok and any(e[0] == "call" and e[1] == "std::option::Option::is_none" and m is True for e, m in ce)
    ck.expect(ok, "LazyBlob::fetch#once", "fetch future created only when none exists",
              "a second fetch future can replace an existing one (double fetch / lost data)", main.loc(0))
    errs = sorted({rv2["variant"] for bb, i, rv2 in k.aggregates("robj::lazy_blob::FetchError")} |
                  {c.split("::")[-1] for x in [k] + F.children.get((k.crate, k.dp), []) for bb, t in x.calls("std::result::Result::map_err")
                   for c in [mir.show(x.expr(t["a"][1]))] if "FetchError" in c})
    tries = len(list(k.calls("std::ops::Try::branch")))
    ck.expect(tries >= 3 and "Dropped" in " ".join(errs), "LazyBlob::fetch#errors", f"{tries} `?` sites; error kinds {errs}",
              f"fetch chain has {tries} `?` sites / errors {errs}", k.loc(0))


def run(ck, F):
    for r in (r20_1, r20_2, r20_3, r20_4, r20_5):
        ck.run_rule(r)
