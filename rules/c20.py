"""C20 — handles and lazy values: confinement, type safety, fidelity, release."""
import mir
from mir import callee
from common import *  # noqa: F401,F403
from robs_common import event_arms

EXPLANATION = (
    "Static rules for handles and lazy blobs: R20.1 the value never travels: TransportedHandle carries only an id, the "
    "drop-notification sender and PhantomData; State::Remote has no entry; into_inner / as_ref / as_mut produce Ok only in "
    "the arms of states that own an entry (LocalCreated, LocalReceived); R20.2 the dynamic type check dominates "
    "exposure: every Ok result of those methods is control-dependent on <dyn Any>::is::<T>() == true or on the Ok arm of "
    "Box<dyn Any>::downcast::<T>(); handle.rs and any_storage.rs contain no unsafe block and no unchecked downcast; R20.3 "
    "re-attachment only through the connection's storage: State::LocalReceived is built only from the Some result of "
    "AnyStorage::remove(id) on the storage handed out by PortDeserializer::storage(); ChMux::new creates one storage per "
    "connection; R20.4 release: the task spawned at first serialization ends with handle_storage.remove(id) on every "
    "path, and (R20.4b) is reached only after dropped_rx.recv() completed or, in the keep_rx.changed() arm, when the "
    "change is the provider's drop (is_err) and the provider was not kept; R20.5 lazy blob: rx.set_max_data_size(len) with the advertised length dominates rx.recv(), the fetch future is "
    "created only when none exists, and every error of the chain is propagated; R20.5b the None result of rx.recv() (port closed before the "
    "data) becomes FetchError, never a default value, and the fetch cache shared by clones is emptied only by a unique "
    "owner. Equality of fetched data and release "
    "timing across endpoints are not decided."
)
ASSUMPTIONS = ["std::any::Any downcasts are sound; Uuid v4 ids do not collide",
               "rch::mpsc / bin channels deliver the blob bytes intact (C01, C04)"]
NOT_DECIDED = ["equality of fetched data with what was provided", "release timing across endpoints and all drop orders"]

H = "robj::handle"
ST = f"{H}::State"


def r20_1(ck, F):
    ck.rule("R20.1", "the value never travels: TransportedHandle has no field that could hold the value; State::Remote has "
            "no entry; into_inner / as_ref / as_mut obtain the entry only in the LocalCreated / LocalReceived arms",
            "a handle deserialized on another endpoint yields some value instead of an error", floor=5)
    th = F.adt_fields(f"{H}::TransportedHandle")
    tys = {k: v["ty"] for k, v in th.items()}
    bad = [k for k, t in tys.items() if not (t == "uuid::Uuid" or t.startswith("rch::mpsc::sender::Sender<()") or t.startswith("std::marker::PhantomData<"))]
    ck.expect(not bad and set(tys) == {"id", "dropped_tx", "data", "codec"}, "TransportedHandle#fields", f"{tys}",
              f"TransportedHandle fields {tys}: unexpected {bad}", None)
    rem = F.adt_fields(ST, "Remote")
    ck.expect("entry" not in rem, "State::Remote#no-entry", "Remote carries no entry", "State::Remote has an entry field", None)
    for m in ("into_inner", "as_ref", "as_mut"):
        b = F.main_body(f"{H}::Handle::{m}")
        arms, sw, _ = event_arms(b, ST)
        oks = [bb for bb, e in ok_capable_stores(b)]
        owning = set()
        for v in ("LocalCreated", "LocalReceived"):
            if v in arms:
                owning |= b.reach([arms[v][1]])
        other_targets = [arms[v][1] for v in arms if v not in ("LocalCreated", "LocalReceived")]
        leak = b.find_path(other_targets, oks, avoid=[arms[v][1] for v in ("LocalCreated", "LocalReceived") if v in arms]) if other_targets else None
        # states without entry go straight to Err(Unknown)
        ok = bool(oks) and leak is None
        ck.expect(ok, f"Handle::{m}#only-owning-states", "Ok only reachable from states that own an entry",
                  f"Handle::{m} can produce Ok for a state without entry", b.loc(sw))


def r20_2(ck, F):
    ck.rule("R20.2", "type check dominates exposure: every Ok of into_inner / as_ref / as_mut is control-dependent on "
            "<dyn Any>::is::<T>() being true or on the Ok arm of Box<dyn Any>::downcast::<T>(); no unsafe block, no "
            "downcast_unchecked in handle.rs / any_storage.rs",
            "Handle::cast::<U>() followed by access: a value exposed at the wrong type", floor=4)
    for m in ("into_inner", "as_ref", "as_mut"):
        b = F.main_body(f"{H}::Handle::{m}")
        oks = [(bb, e) for bb, e in ok_capable_stores(b)]
        ok = bool(oks)
        for bb, e0 in oks:
            ce = conds(b, bb)
            good = False
            if e0 is not None:
                # the result is the outcome of downcast::<T>() handed on through outcome-preserving combinators
                src, _ = peel_outcome(e0)
                if isinstance(src, tuple) and src and src[0] == "call" and "downcast" in src[1] and "unchecked" not in src[1]:
                    good = True
            for e, mng in ce:
                calls = [c[1] for c in mir.calls_in(e)]
                if any(c.endswith("Any::is") or c.endswith(">::is") or "::is" == c[-4:] for c in calls) and mng is True:
                    good = True
                if e[0] == "discr" and any("downcast" in c for c in calls) and mng == "Ok":
                    good = True
            ok = ok and good
        ck.expect(ok, f"Handle::{m}#type-checked", "Ok guarded by the dynamic type test",
                  f"Handle::{m} exposes the value without a dynamic type check on every Ok path", b.loc(oks[0][0]) if oks else b.loc(0))
    ub = [u for u in F.unsafe_blocks if u["crate"] == "remoc" and u.get("user") and not u.get("x") and
          u["file"].endswith(("robj/handle.rs", "chmux/any_storage.rs"))]
    unchecked = [(b.path, bb) for b in F.by_dp.values() if b.crate == "remoc" and b.file.endswith(("robj/handle.rs", "chmux/any_storage.rs"))
                 for bb, t in b.calls() if "unchecked" in (callee(t) or "") and "downcast" in (callee(t) or "")]
    ck.expect(not ub and not unchecked, "handle#no-unsafe", "no unsafe block / unchecked downcast",
              f"unsafe: {[(u['file'], u['line']) for u in ub]} unchecked: {unchecked}", None)


def r20_3(ck, F):
    ck.rule("R20.3", "re-attachment: State::LocalReceived is constructed only under the Some result of "
            "AnyStorage::remove(id) on PortDeserializer::storage(); ChMux::new creates the storage (one per connection)",
            "a handle id guessed / replayed on another connection attaches to a foreign value", floor=2)
    sites = [(b, bb, i, rv) for b in F.by_dp.values() if b.crate == "remoc" for bb, i, rv in b.aggregates(ST, "LocalReceived")]
    ok = len(sites) >= 1
    for b, bb, i, rv in sites:
        if "Clone" in b.path:
            continue
        e = b.expr(rv["ops"][rv["fields"].index("entry")])
        rm = mir.calls_in(e, "chmux::any_storage::AnyStorage::remove")
        st = bool(rm) and bool(mir.calls_in(rm[0][2][0], "rch::base::receiver::PortDeserializer::storage"))
        ce = conds(b, bb)
        some = any(x[0] == "discr" and mir.calls_in(x, "chmux::any_storage::AnyStorage::remove") and m == "Some" for x, m in ce)
        ck.expect(st and some, f"State::LocalReceived@{mir.strip_generics(b.path)}", "entry = storage.remove(id) of this connection",
                  f"LocalReceived constructed from {mir.show(e)[:80]}", b.loc(bb, i))
    nb = F.main_body("chmux::mux::ChMux::new")
    news = [bb for bb, t in nb.calls("chmux::any_storage::AnyStorage::new")]
    ck.expect(len(news) == 1, "ChMux::new#one-storage", "one AnyStorage per connection", f"{len(news)} AnyStorage::new calls", nb.loc(0))


def r20_4(ck, F):
    ck.rule("R20.4", "release: the watcher task spawned when a created handle is first serialized calls "
            "handle_storage.remove(id) on every path to its end", "the stored value is never released (leak) after all "
            "handles are gone", floor=1)
    ser = [b for k, b in F.bodies.items() if k.startswith(f"<{H}::Handle") and k.endswith("Serialize>::serialize")]
    if not ser:
        raise mir.AnchorMissing("Serialize for Handle")
    tasks = [k for k in F.children.get((ser[0].crate, ser[0].dp), []) if k.kind == "coroutine"]
    ok = False
    for k in tasks:
        rm = {bb for bb, t in k.calls("chmux::any_storage::AnyStorage::remove")}
        if rm:
            ok = k.find_path([0], k.returns(), avoid=rm) is None
    ck.expect(ok, "Handle::serialize#release-task", "remove(id) on every path to the end of the watcher task",
              "the watcher task can end without removing the stored entry", ser[0].loc(0))


def r20_4b(ck, F):
    ck.rule("R20.4b", "no premature release: in the watcher task every path to handle_storage.remove(id) passes through "
            "the completion of dropped_rx.recv() (all remote handles gone) or, in the keep_rx.changed() arm, through both "
            "`res.is_err()` (provider dropped) and `!*keep_rx.borrow…()` (provider not kept)",
            "Provider::keep() (a mere change notification) after the handle was sent releases the value while a remote "
            "handle still exists: the handle returning to its origin yields Unknown", floor=3)
    ser = [b for k, b in F.bodies.items() if k.startswith(f"<{H}::Handle") and k.endswith("Serialize>::serialize")]
    if not ser:
        raise mir.AnchorMissing("Serialize for Handle")
    tasks = [k for k in F.children.get((ser[0].crate, ser[0].dp), []) if k.kind == "coroutine" and
             list(k.calls("chmux::any_storage::AnyStorage::remove"))]
    if not tasks:
        raise mir.AnchorMissing("watcher task of Serialize for Handle")
    k = tasks[0]
    rm = [bb for bb, t in k.calls("chmux::any_storage::AnyStorage::remove")]
    RECV = "rch::mpsc::receiver::Receiver::recv"
    gates = {a["ready_bb"] for a in k.awaits() if (a.get("fut_fn") or "").startswith(RECV) and a.get("ready_bb") is not None}
    sels = select_info(k)
    changed_arms = []
    for s in sels:
        for idx, arm in s["arms"].items():
            if arm["fut"] == RECV:
                gates.add(arm["target"])
            elif arm["fut"] == "tokio::sync::watch::Receiver::changed":
                changed_arms.append((s, arm))
            else:
                ck.bad(f"Handle::serialize#watcher-arm-{idx}", f"unexpected select branch future {arm['fut']} in the watcher task", k.loc(s["switch"]))
    ck.expect(bool(gates), "Handle::serialize#watcher-waits-for-handles", f"{len(gates)} completion point(s) of dropped_rx.recv()",
              "the watcher task never waits for dropped_rx.recv()", k.loc(0))
    for s, arm in changed_arms:
        region = k.reach([arm["target"]], avoid=[s["poll_bb"]])
        is_err = [tb for sb, tb, m, e in switch_edges(k, lambda e: bool(mir.calls_in(e, "std::result::Result::is_err")), region) if m is True] + \
                 [tb for sb, tb, m, e in switch_edges(k, lambda e: bool(mir.calls_in(e, "std::result::Result::is_ok")), region) if m is False] + \
                 [tb for sb, tb, m, e in switch_edges(k, lambda e: e[0] == "discr" and "changed" in mir.show(e), region) if m == "Err"]
        not_kept = [tb for sb, tb, m, e in switch_edges(k, lambda e: bool(mir.calls_in(e, "tokio::sync::watch::Receiver::borrow_and_update") or
                                                                           mir.calls_in(e, "tokio::sync::watch::Receiver::borrow")), region) if m is False]
        p1 = k.find_path([arm["target"]], rm, avoid=list(gates) + is_err + [s["poll_bb"]])
        p2 = k.find_path([arm["target"]], rm, avoid=list(gates) + not_kept + [s["poll_bb"]])
        ck.expect(p1 is None, "Handle::serialize#release-needs-provider-dropped", "remove(id) after keep_rx.changed() only if it returned Err",
                  f"a change notification of the keep flag (Provider::keep) releases the stored value: path {p1}", k.loc(arm["target"]))
        ck.expect(p2 is None, "Handle::serialize#release-needs-not-kept", "remove(id) after keep_rx.changed() only if keep is false",
                  f"a dropped provider releases the value although it was kept: path {p2}", k.loc(arm["target"]))
    # ... and the converse: a provider dropped without keep() does release the value (C20: "released once ... its
    # provider is dropped"): the changed() arm exists and its provider-dropped outcome can reach remove(id) without another wait
    released = False
    for s, arm in changed_arms:
        region = k.reach([arm["target"]], avoid=[s["poll_bb"]])
        is_err = [tb for sb, tb, m, e in switch_edges(k, lambda e: bool(mir.calls_in(e, "std::result::Result::is_err")), region) if m is True] + \
                 [tb for sb, tb, m, e in switch_edges(k, lambda e: bool(mir.calls_in(e, "std::result::Result::is_ok")), region) if m is False] + \
                 [tb for sb, tb, m, e in switch_edges(k, lambda e: e[0] == "discr" and "changed" in mir.show(e), region) if m == "Err"]
        for tb in is_err:
            if k.find_path([tb], rm, avoid=[s["poll_bb"]] + [a["poll_bb"] for a in k.awaits() if a.get("poll_bb") is not None]) is not None:
                released = True
    ck.expect(released, "Handle::serialize#provider-drop-releases",
              "the provider-dropped outcome of keep_rx.changed() leads to remove(id)",
              "the watcher task never releases the stored value when the provider is dropped without keep(): no path from the Err "
              "outcome of keep_rx.changed() to handle_storage.remove(id)", k.loc(0))
    p0 = k.find_path([0], rm, avoid=list(gates) + [arm["target"] for _, arm in changed_arms])
    ck.expect(p0 is None, "Handle::serialize#release-only-after-wait", "no path to remove(id) that bypasses both waits",
              f"the watcher task releases the value without waiting: path {p0}", k.loc(0))


def r20_5(ck, F):
    ck.rule("R20.5", "lazy blob: in the fetch future rx.set_max_data_size(len) with len = the advertised length dominates "
            "rx.recv(); the future is created only when the slot is empty; connection / receive errors map to FetchError",
            "a blob larger than advertised is accepted, or a cut-short transfer yields a truncated Ok", floor=3)
    fam = F.family("robj::lazy_blob::LazyBlob::fetch")
    main = F.main_body("robj::lazy_blob::LazyBlob::fetch")
    task = [x for x in fam if x.kind == "coroutine" and list(x.calls("chmux::receiver::Receiver::set_max_data_size"))]
    if not task:
        raise mir.AnchorMissing("fetch future of LazyBlob::fetch")
    k = task[0]
    sm = [(bb, t) for bb, t in k.calls("chmux::receiver::Receiver::set_max_data_size")]
    rv = [a for a in k.awaits() if (a.get("fut_fn") or "").startswith("chmux::receiver::Receiver::recv")]
    arg = k.expr(sm[0][1]["a"][1])
    ok = bool(rv) and all(k.dominates(sm[0][0], a["poll_bb"]) for a in rv) and arg[0] == "path" and arg[1].split(".")[0] == "len"
    src_ok = False
    for o in F.upvar_origins(k, "len"):
        if o.kind == "call" and o.detail[1].endswith("LazyBlob::len"):
            src_ok = True
    # `len` upvar comes from self.len()? in the parent
    if not src_ok:
        for bb, t in main.calls():
            if (callee(t) or "").endswith("LazyBlob::len"):
                src_ok = True
    ck.expect(ok and src_ok, "LazyBlob::fetch#limit-before-recv", "receive limit = advertised length, set before recv",
              f"recv is not preceded by set_max_data_size(advertised len) (arg {mir.show(arg)})", k.loc(sm[0][0]))
    aggs = [(main, bb, i) for bb, i, s in main.assigns() if s["rv"]["r"] == "agg" and s["rv"].get("dp") == k.dp]
    ok = bool(aggs)
    for x, bb, i in aggs:
        ok = ok and controlled_by_option(x, bb, "None")
    if not aggs:
        # created inside the closure given to Option::get_or_insert_with (called only when the slot is empty)
        for cl in F.kids(main):
            if cl.kind == "closure" and any(s["rv"]["r"] == "agg" and s["rv"].get("dp") == k.dp for bb, i, s in cl.assigns()):
                used = [t for bb, t in main.calls("std::option::Option::get_or_insert_with")
                        if any(o.kind == "agg" and main.stmts(o.detail[0])[o.detail[1]]["rv"].get("dp") == cl.dp
                               for o in main.origins(t["a"][1]))]
                ok = bool(used)
    ck.expect(ok, "LazyBlob::fetch#once", "fetch future created only when none exists",
              "a second fetch future can replace an existing one (double fetch / lost data)", main.loc(0))
    errs = sorted({rv2["variant"] for bb, i, rv2 in k.aggregates("robj::lazy_blob::FetchError")} |
                  {c.split("::")[-1] for x in [k] + F.children.get((k.crate, k.dp), []) for bb, t in x.calls("std::result::Result::map_err")
                   for c in [mir.show(x.expr(t["a"][1]))] if "FetchError" in c})
    tries = len(list(k.calls("std::ops::Try::branch")))
    ck.expect(tries >= 3 and "Dropped" in " ".join(errs), "LazyBlob::fetch#errors", f"{tries} `?` sites; error kinds {errs}",
              f"fetch chain has {tries} `?` sites / errors {errs}", k.loc(0))


def r20_5b(ck, F):
    ck.rule("R20.5b", "cut-short transfer is an error: the Option returned by rx.recv() in the fetch future is consumed only "
            "by ok_or / ok_or_else (None -> FetchError) or by a match whose None arm cannot reach an Ok result; the cached "
            "result of a Clone-able lazy value is emptied (MaybeDone::take_output) only under Arc::try_unwrap == Ok",
            "a port closed before the data arrived yields Ok(empty) instead of FetchError::Dropped; into_inner on one "
            "clone of a LazyBlob empties the cache under the other clones", floor=2)
    fam = F.family("robj::lazy_blob::LazyBlob::fetch")
    task = [x for x in fam if x.kind == "coroutine" and list(x.calls("chmux::receiver::Receiver::set_max_data_size"))]
    if not task:
        raise mir.AnchorMissing("fetch future of LazyBlob::fetch")
    k = task[0]
    consumers, bad = [], []
    for bb, t in k.calls():
        fn = t["fn"]
        if fn.get("self_adt") == "std::option::Option" and "DataBuf" in (fn.get("self_ty") or "") and t["a"] and \
                mir.calls_in(k.expr(t["a"][0]), "chmux::receiver::Receiver::recv"):
            consumers.append(callee(t))
            if callee(t) not in ("std::option::Option::ok_or", "std::option::Option::ok_or_else"):
                bad.append((callee(t), bb))
    for sb, tb, m, e in switch_edges(k, lambda e: e[0] == "discr" and mir.calls_in(e, "chmux::receiver::Receiver::recv") and
                                     "Option" in str(e)):
        if m == "None" or (isinstance(m, tuple) and "None" in m):
            consumers.append("match")
            oks = [x for x, i, v in k.result_stores("Ok")]
            if k.find_path([tb], oks, avoid=[sb]):
                bad.append(("match None -> Ok", sb))
    ck.expect(bool(consumers) and not bad, "LazyBlob::fetch#none-is-error", f"recv() result consumed by {sorted(set(consumers))}",
              f"the None result of rx.recv() (transfer cut short) does not become an error: {bad or 'no consumer found'}",
              k.loc(bad[0][1]) if bad else k.loc(0))
    # cached results shared by clones
    n = 0
    for adt, mod in (("robj::lazy_blob::LazyBlob", "robj::lazy_blob::LazyBlob::"), ("robj::lazy::Lazy", "robj::lazy::Lazy::")):
        cl = F.has_impl(adt, "std::clone::Clone")
        for b in F.by_dp.values():
            if b.crate != "remoc" or not mir.strip_generics(b.path).startswith(mod):
                continue
            for bb, t in b.calls("futures::future::MaybeDone::take_output"):
                n += 1
                if not cl:
                    ck.ok(f"{adt.split('::')[-1]}#take-output@{mir.strip_generics(b.path)}", "type is not Clone: the cache has one owner")
                    continue
                ce = conds(b, bb)
                uniq = any(e[0] == "discr" and mir.calls_in(e, "std::sync::Arc::try_unwrap") and m == "Ok" for e, m in ce)
                ck.expect(uniq, f"{adt.split('::')[-1]}#take-output@{mir.strip_generics(b.path)}", "take_output only when the Arc is unique",
                          f"{mir.strip_generics(b.path)} empties the fetch cache shared with clones (take_output not guarded by "
                          f"Arc::try_unwrap == Ok): another clone then panics / sees no data", b.loc(bb))
    if n == 0:
        raise mir.AnchorMissing("MaybeDone::take_output in lazy / lazy_blob")


def r20_6(ck, F):
    ck.rule("R20.6", "the blob provider serves its consumers independently: in the request loop of LazyBlob::provided the only "
            "suspension point is the wait for the next fetch request; connecting to the requester and transmitting the data "
            "happen in a task spawned per request",
            "two endpoints fetch the same blob and the first requester's link stalls (flow control): the provider loop is "
            "stuck inside that transfer, the second endpoint's fetch never gets its data and never gets an error; dropping "
            "the provider also cuts a transfer that is already running", floor=1)
    fam = [b for k, b in F.bodies.items() if k.startswith("robj::lazy_blob::LazyBlob") and "::provided::" in k and b.kind == "coroutine"]
    loop_body = None
    for b in fam:
        recvs = [a for a in b.awaits() if (a.get("fut_fn") or "").endswith("mpsc::receiver::Receiver::recv::{closure#0}") or
                 "mpsc::receiver::Receiver" in (a.get("fut_fn") or "") and "recv" in (a.get("fut_fn") or "")]
        heads = [h for _, h in b.back_edges()]
        if recvs and any(recvs[0]["poll_bb"] in b.loop_blocks(h) for h in heads):
            loop_body = (b, recvs[0], [h for h in heads if recvs[0]["poll_bb"] in b.loop_blocks(h)])
    if loop_body is None:
        raise mir.AnchorMissing("request loop of LazyBlob::provided (a coroutine awaiting the request receiver inside a loop)")
    b, rq, heads = loop_body
    blocks = set().union(*[b.loop_blocks(h) for h in heads])
    other = [a for a in b.awaits() if a["poll_bb"] in blocks and a["poll_bb"] != rq["poll_bb"]]
    spawns = [bb for bb, t in b.calls() if (callee(t) or "").endswith("::spawn") and bb in blocks]
    ck.expect(not other and bool(spawns), "LazyBlob::provided#serve-in-own-task",
              "the request loop only awaits the next request; the transfer is spawned",
              "the request loop of LazyBlob::provided awaits " +
              (f"{(other[0].get('fut_fn') or other[0].get('fut_ty') or '')[:80]} (line {other[0]['line']})" if other else "nothing else but spawns no task")
              + ": one stalled consumer blocks every other consumer of the blob", b.loc(rq["poll_bb"]))


def r20_7(ck, F):
    import cancel
    cancel.rule(ck, F, "R20.7", only=("robj::lazy::", "robj::lazy_blob::"), floor=1, min_fns=2)


def r20_8(ck, F):
    ck.rule("R20.8", "a forwarded blob is relayed by the chunk-streaming forwarder: in the relay task that fw_bin::Sender spawns "
            "when a fetch request passes through an intermediate endpoint, the data is handed on with bin::Receiver::forward "
            "(unlimited, chunk by chunk) and never read with a size-limited recv()",
            "blob forwarded A -> B -> C and larger than the connection's max_data_size (512 KiB by default): the relay's recv() "
            "fails with ExceedsMaxDataSize, the task ends silently and C gets FetchError::Dropped although the provider is "
            "alive", floor=1)
    ser = [b for k, b in F.bodies.items() if k.startswith("<robj::lazy_blob::fw_bin::Sender") and k.endswith("Serialize>::serialize")]
    if not ser:
        raise mir.AnchorMissing("Serialize for fw_bin::Sender")
    tasks = [k for k in F.children.get((ser[0].crate, ser[0].dp), []) if k.kind == "coroutine"]
    tasks = [k for k in tasks if list(k.calls("rch::bin::sender::Sender::into_inner")) or list(k.calls("rch::bin::receiver::Receiver::into_inner"))]
    if not tasks:
        raise mir.AnchorMissing("relay task of Serialize for fw_bin::Sender")
    k = tasks[0]
    fwd = [bb for bb, t in k.calls() if (callee(t) or "").endswith("chmux::receiver::Receiver::forward")]
    recvs = [bb for bb, t in k.calls() if (callee(t) or "") in ("chmux::receiver::Receiver::recv", "chmux::receiver::Receiver::recv_any")]
    ck.expect(bool(fwd) and not recvs, "fw_bin::Sender::serialize#relay-streams",
              "relay uses Receiver::forward, no size-limited recv()",
              f"the relay task of a forwarded blob reads the data with a size-limited receive ({len(recvs)} recv call(s), "
              f"{len(fwd)} forward call(s)): blobs above max_data_size are dropped on the way", k.loc(recvs[0] if recvs else 0))


def run(ck, F):
    for r in (r20_1, r20_2, r20_3, r20_4, r20_4b, r20_5, r20_5b, r20_6, r20_7, r20_8):
        ck.run_rule(r)
