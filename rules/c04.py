"""C04 — typed channels: per-sender prefix delivery; item failures never create gaps."""
import json
import os

import mir
from mir import callee
from common import *  # noqa: F401,F403
import c01
import tables

EXPLANATION = (
    "Static rules for the typed-channel layer: R04.1 (= R01.6, seen from rch::base::Receiver and chmux::forward, which "
    "call recv_any after recv_chunk reported Cancelled) the first frame of the message following a cancelled streamed "
    "item is not lost; R04.2 every item-level (non-final) error return of base::Receiver::recv leaves a clean state: "
    "after the last store of a non-empty DataSource a store of DataSource::None always precedes the error exit (listed "
    "exceptions: StreamingUnavailable keeps the received header on purpose; MissingPorts is cleaned by the restart arm of "
    "the next call); R04.3 the forwarding tasks (mpsc/watch send_impl, recv_impl) handle one item at a time: no task is "
    "spawned inside them; R04.4 the error classification tables (is_final / is_item_specific of base and mpsc errors) "
    "equal spec/classification.json (item failures non-final at the base layer); R04.5 the buffered size gate of "
    "base::Sender::send precedes any transmission; R04.7 mpsc::Receiver::recv / recv_many have no suspension point after "
    "the dequeue (their documented cancel safety). Value equality through serialization, the big-data heuristic and "
    "multi-sender interleavings are not decided."
)
ASSUMPTIONS = ["codec serialize/deserialize round-trips values (not analysed)",
               "spec/classification.json states the intended classification (read from the documentation of the error types)"]
NOT_DECIDED = ["value equality through serialization", "the big-data heuristic", "multi-sender interleavings",
               "observation O2: at the mpsc layer an item-specific send error closes the whole channel as Failed (pinned by "
               "test rch::mpsc::max_item_size_exceeded); values after it are lost as a suffix"]

VERIF = os.path.dirname(os.path.dirname(os.path.abspath(__file__)))
BRECV = "rch::base::receiver::Receiver::recv"


def r04_1(ck, F):
    c01.r01_6(ck, F)
    ck.rule("R04.1", "callers restart with recv_any after Cancelled: base::Receiver::recv and chmux::forward call "
            "recv_any on a path from the Cancelled outcome of recv_chunk (this is the call pattern for which R01.6 matters)",
            "the item following a cancelled streamed item is lost", floor=2)
    for fn in (BRECV, "chmux::forward::forward"):
        b = F.main_body(fn)
        rc = [a for a in b.awaits() if (a.get("fut_fn") or "").startswith("chmux::receiver::Receiver::recv_chunk")]
        ra = [bb for bb, t in b.calls("chmux::receiver::Receiver::recv_any")]
        ok = bool(rc) and bool(ra) and any(x in b.reach([r["ready_bb"]]) for r in rc for x in ra if r.get("ready_bb") is not None)
        ck.expect(ok, f"{fn.split('::')[-2]}::{fn.split('::')[-1]}#restart-with-recv_any", "recv_any reachable after recv_chunk",
                  "the caller no longer restarts with recv_any (R01.6's call pattern changed: re-derive the rule)", b.loc(0))


def r04_2(ck, F):
    ck.rule("R04.2", "non-final errors leave a clean state in base::Receiver::recv: between the last store of a non-empty "
            "DataSource into self.data and an item-level error exit there is always a store of DataSource::None",
            "oversized / undecodable item followed by a normal item: the second item is merged into or lost behind the "
            "first", floor=4)
    b = F.main_body(BRECV)
    DS = "rch::base::receiver::DataSource"
    none_stores, other_stores = set(), set()
    for bb, i, s in b.field_stores("data"):
        e = b.expr(s["rv"]["o"]) if s["rv"]["r"] == "use" else ("agg", s["rv"].get("adt"), s["rv"].get("variant"), ())
        variants = {x[2] for x in mir.walk(e) if isinstance(x, tuple) and x and x[0] == "agg" and x[1] == DS}
        if variants == {"None"}:
            none_stores.add(bb)
        else:
            other_stores.add(bb)
    ck.expect(bool(none_stores) and bool(other_stores), "recv#stores", f"{len(none_stores)} clearing and {len(other_stores)} filling stores of self.data",
              "stores to self.data not found", b.loc(0))
    exits = []
    for bb, i, rv in b.aggregates("rch::base::receiver::RecvError"):
        exits.append((bb, rv["variant"]))
    for bb, t in b.calls("std::ops::FromResidual::from_residual"):
        args = " ".join(t["fn"].get("args", []))
        if "DeserializationError" in args and "chmux::receiver::RecvError" not in args.split("Infallible,")[-1]:
            exits.append((bb, "Deserialize(?)"))
    n = 0
    for bb, var in exits:
        if var in ("Receive",):
            continue        # transport errors are final
        # exception table
        e_str = ""
        if var == "Deserialize":
            rvs = [rv for b2, i, rv in b.aggregates("rch::base::receiver::RecvError") if b2 == bb]
            e_str = mir.show(b.expr(rvs[0]["ops"][0])) if rvs else ""
        if "StreamingUnavailable" in e_str:
            ck.ok("recv#exit-StreamingUnavailable", "listed exception: keeps the received header so that a later call can "
                  "retry once threads are available", b.loc(bb), nontrivial=False)
            continue
        if var == "MissingPorts":
            ck.ok("recv#exit-MissingPorts", "listed exception: item and port_deser are discarded by the restart arm of the "
                  "next call (it receives the next item's data instead of port requests)", b.loc(bb), nontrivial=False)
            continue
        n += 1
        p = b.find_path(sorted(other_stores), [bb], avoid=none_stores, from_succ=True)
        ck.expect(p is None, f"recv#exit-{var}-{n}", "self.data is cleared before this error exit",
                  f"error exit {var} at {b.loc(bb)} can be reached with a non-empty DataSource left in self.data "
                  f"(filled at {b.loc(p[0]) if p else ''})", b.loc(bb))


def r04_3(ck, F):
    ck.rule("R04.3", "forwarding tasks are sequential: no spawn inside mpsc::send_impl / recv_impl and watch::send_impl / "
            "recv_impl (one item is fully handed on before the next is taken)",
            "two items forwarded concurrently can overtake each other", floor=4)
    for fn in ("rch::mpsc::send_impl", "rch::mpsc::recv_impl", "rch::watch::send_impl", "rch::watch::recv_impl"):
        fam = F.family(fn)
        sp = [(x, bb) for x in fam for bb, t in x.calls() if (callee(t) or "").split("::")[-1] in ("spawn", "spawn_blocking", "spawn_local")]
        ck.expect(not sp, fn.replace("rch::", ""), "no task spawned in the forwarding loop",
                  f"{fn} spawns a task at {[x.loc(bb) for x, bb in sp]}", fam[0].loc(0))


def r04_4(ck, F):
    ck.rule("R04.4", "classification tables equal spec/classification.json", "an item failure classified final (or a "
            "connection failure classified recoverable): users drop a healthy channel or spin on a dead one", floor=5)
    spec = json.load(open(os.path.join(VERIF, "spec", "classification.json")))
    for fn, ent in spec.items():
        if fn.startswith("_"):
            continue
        tab = tables.variant_result_table(F.body(fn), ent["adt"])
        ck.expect(tab == ent["table"], fn.replace("rch::", ""), f"{tab}", f"{fn} classifies {tab}; documented {ent['table']}",
                  F.body(fn).loc(0))


def r04_5(ck, F):
    ck.rule("R04.5", "the buffered size gate of base::Sender::send (data.len() > max_item_size -> MaxItemSizeExceeded) is "
            "not reachable from any chmux::Sender::send call: nothing was put on the wire for a refused item",
            "an oversized item partially transmitted and then refused", floor=1)
    b = F.main_body("rch::base::sender::Sender::send")
    sends = [bb for bb, t in b.calls(("chmux::sender::Sender::send", "chmux::sender::ChunkSender::send",
                                      "chmux::sender::Sender::send_chunks"))]
    gates = []
    for bb, i, rv in b.aggregates("rch::base::sender::SendErrorKind", "MaxItemSizeExceeded"):
        ce = conds(b, bb)
        if any(e[0] == "bin" and e[1] == "Gt" and "max_item_size" in mir.show(e[3]) and m is True for e, m in ce):
            gates.append(bb)
    ok = len(gates) >= 1 and all(g not in b.reach(sends) for g in gates)
    ck.expect(ok, "base::Sender::send#gate-before-wire", "size gate not reachable from a transmission",
              "the buffered MaxItemSizeExceeded exit is reachable after data was handed to chmux", b.loc(gates[0]) if gates else b.loc(0))


def r04_6(ck, F):
    ck.rule("R04.6", "restartable streamed receive: in base::Receiver::recv the queue slot for the deserializer is reserved "
            "before a chunk is taken from the port, and between obtaining the chunk (recv_chunk() -> Ok(Some)) and handing "
            "it over (Permit::send) there is no suspension point",
            "recv() dropped by a timeout / select! while the deserializer queue is full: the chunk already taken from the "
            "port is lost, the streamed item is corrupted although its send succeeded", floor=1)
    b = F.main_body(BRECV)
    rc = [a for a in b.awaits() if (a.get("fut_fn") or "").startswith("chmux::receiver::Receiver::recv_chunk")]
    hand = {bb for bb, t in b.calls(PERMIT_SEND)}
    if not rc:
        raise mir.AnchorMissing("recv_chunk().await in base::Receiver::recv")
    for a in rc:
        some_edges = []
        for s in b.reachable:
            t = b.term(s)
            if t["t"] != "switch":
                continue
            e = switch_expr(b, s)
            if e[0] == "discr" and any(w[0] == "await" and w[2] == a["poll_bb"] for w in mir.walk(e) if isinstance(w, tuple) and w):
                some_edges += [tb for v, tb in t["targets"] if switch_meaning(b, s, v) == "Some"]
        # abandoning the item with an error (size limit) is the other legitimate fate of a taken chunk
        errs = {bb for bb, i, rv in b.aggregates() if rv["adt"].split("::")[-1].endswith("Error") and rv["adt"].startswith("rch::base::receiver")}
        p = b.find_path(some_edges, b.yields(), avoid=hand | errs) if some_edges else [0]
        ck.expect(bool(hand) and bool(some_edges) and p is None, "base::Receiver::recv#chunk-handover",
                  "a received chunk is handed to the reserved slot without suspension",
                  f"after a chunk was taken from the port ({b.loc(a['yield_bb'])}) the receive future can suspend before the "
                  f"chunk is handed over: a restarted recv() loses it", b.loc(a["yield_bb"]))


def r04_7(ck, F):
    ck.rule("R04.7", "documented cancel safety of rch::mpsc::Receiver::recv / recv_many: after the await that takes requests "
            "out of the local queue completes, no further suspension point is reachable before the function returns or "
            "polls the queue again (a dequeued value cannot be dropped with a cancelled future)",
            "recv() inside select! / timeout loses a value that was already taken from the queue", floor=2)
    for m, q in (("recv", "tokio::sync::mpsc::Receiver::recv"), ("recv_many", "tokio::sync::mpsc::Receiver::recv_many")):
        b = F.main_body("rch::mpsc::receiver::Receiver::" + m)
        aw = [a for a in b.awaits() if (a.get("fut_fn") or "").startswith(q) and a.get("ready_bb") is not None]
        if not aw:
            raise mir.AnchorMissing(f"await of {q} in mpsc::Receiver::{m}")
        polls = [a["poll_bb"] for a in aw]
        ys = [y for y in b.yields() if all(y != a["yield_bb"] for a in aw)]
        bad = [b.find_path([a["ready_bb"]], ys, avoid=polls) for a in aw]
        bad = [p_ for p_ in bad if p_]
        ck.expect(not bad, f"mpsc::Receiver::{m}#no-yield-after-dequeue", "no suspension after the dequeue",
                  f"mpsc::Receiver::{m} can suspend after taking a value from the queue (path {bad[0] if bad else ''}): "
                  f"cancelling it there loses the value", b.loc(bad[0][-1]) if bad else None)


def r04_9(ck, F):
    ck.rule("R04.9", "a stashed message is never overwritten: in base::Receiver::recv every store of Some(..) into one of "
            "the receiver's hold-over slots (self.recved: a message already taken from the port; self.item: a deserialized "
            "item waiting for its ports) happens under `slot.is_none()`, or no other Some-store to that slot can reach it "
            "without the slot having been emptied by take() in between",
            "send of an item with ports cancelled between its data and its port message, then further items: the receiver "
            "stashes the next data message, restarts, and reads the port again — the stashed item is overwritten and lost "
            "while its successor is delivered", floor=3)
    b = F.main_body("rch::base::receiver::Receiver::recv")
    n = 0
    for fld in ("recved", "item"):
        stores = [(bb, i) for bb, i, s in b.field_stores(fld) if "Some" in mir.show(b.expr(s["rv"]["o"]) if s["rv"].get("o") else ("x",))
                  or (s["rv"]["r"] == "agg" and s["rv"].get("variant") == "Some")]
        takes = [bb for bb, t in b.calls({"std::option::Option::take", "std::mem::take"})
                 if mir.last_field(b.expr(t["a"][0])) == fld]
        if not stores:
            raise mir.AnchorMissing(f"Some-store into self.{fld} in base::Receiver::recv")
        for k, (bb, i) in enumerate(stores):
            n += 1
            guarded = any(m is True and e[0] == "call" and e[1] == "std::option::Option::is_none" and mir.last_field(e[2][0]) == fld
                          for e, m in conds(b, bb))
            if guarded:
                ck.ok(f"recv#{fld}-store{k}", "stored under slot.is_none()", b.loc(bb, i))
                continue
            clash = None
            for sb, si in stores:
                p = b.find_path_cp([sb], [bb], avoid=takes, from_succ=True)
                if p is not None:
                    clash = (sb, si, p)
                    break
            ck.expect(clash is None, f"recv#{fld}-store{k}", "no earlier stash can reach this store without a take()",
                      f"base::Receiver::recv overwrites self.{fld} at {b.loc(bb, i)}: the Some(..) stored at "
                      f"{b.loc(clash[0], clash[1]) if clash else ''} can still be in the slot (no take() on the path, no is_none() guard)",
                      b.loc(bb, i), {"path": [b.loc(x) for x in (clash[2] if clash else [])][:14]})
    ck.expect(n >= 3, "recv#slots", f"{n} hold-over stores", f"only {n} stores found", None)


def r04_8(ck, F):
    import cancel
    cancel.rule(ck, F, "R04.8", only=("chmux::receiver::", "rch::base::", "rch::mpsc::", "chmux::sender::", "chmux::credit::"), floor=5)


def run(ck, F):
    for r in (r04_1, r04_2, r04_3, r04_4, r04_5, r04_6, r04_7):
        ck.run_rule(r)
    ck.run_rule(c01.r01_5)
    ck.run_rule(c01.r01_5b)
    ck.run_rule(r04_8)
    ck.run_rule(r04_9)
    ck.run_rule(c01.r01_8)
    ck.run_rule(c01.r01_9)
    import c06
    ck.run_rule(c06.r06_5)     # an item-level receive error is handed to the local receiver as a non-final error and the channel goes on
