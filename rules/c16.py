"""C16 — broadcast: ordered delivery with an explicit lag marker at every gap."""
import mir
from mir import callee
from common import *  # noqa: F401,F403
from robs_common import event_arms

EXPLANATION = (
    "Static rules for the broadcast fan-out: R16.1 sending never blocks: broadcast::Sender::send is a non-async fn whose "
    "callee closure contains no blocking or async-lock call and hands values over with try_send; R16.2 lag marker before "
    "re-admission: a subscriber whose buffer was full is not kept in the ready list, its re-admission (ready_tx.send) is "
    "dominated by the completed send of BroadcastMsg::Lagged and a reserved slot, and the not_ready counter is "
    "incremented in that arm and decremented once per re-admission; R16.3 the receiver maps Lagged to Err(Lagged) and "
    "Value(v) to Ok(v) without a wildcard; R16.4 each ready subscriber gets a clone of the same value, sequentially. "
    "Per-subscriber sequences under all rates are not decided."
)
ASSUMPTIONS = ["rch::mpsc try_send/send/reserve semantics (bounded FIFO per subscriber)", "std Mutex is a correct lock"]
NOT_DECIDED = ["per-subscriber sequences for all send / consumption rates", "remote subscribers (rest on C04)"]

SEND = "rch::broadcast::sender::Sender::send"
BM = "rch::broadcast::BroadcastMsg"


def r16_1(ck, F):
    ck.rule("R16.1", "broadcast::Sender::send is not async, uses try_send for the hand-over and reaches no blocking / "
            "async-lock call", "a slow subscriber blocks the sender (and thereby every other subscriber)", floor=2)
    f = F.fn(SEND)
    b = F.body(SEND)
    ck.expect(not f["async"] and not b.yields(), "send#non-async", "plain fn, no suspension", "broadcast send is async", b.loc(0))
    bad = []
    ts = []
    for x in F.family(SEND):
        if x.kind == "coroutine":
            continue        # the spawned re-admission task may wait
        for bb, t in x.calls():
            c = callee(t) or ""
            n = c.split("::")[-1]
            if n.startswith("blocking_") or n in ("block_on", "block_in_place") or c in ("tokio::sync::Mutex::lock",):
                bad.append((x, bb, c))
            if n == "try_send":
                ts.append(bb)
    ck.expect(not bad and bool(ts), "send#non-blocking", f"try_send hand-over, no blocking call",
              f"blocking calls in broadcast send: {[c for _, _, c in bad]}; try_send sites: {len(ts)}", b.loc(0))


def r16_2(ck, F):
    ck.rule("R16.2", "lag marker before re-admission: in the Full arm the subscriber is not pushed to `keep`; the spawned "
            "task sends BroadcastMsg::Lagged, reserves a slot and only then returns the subscriber via ready_tx; "
            "not_ready += 1 in that arm, -= 1 per re-admission",
            "a subscriber that missed values gets later values without a Lagged marker at the gap", floor=4)
    b = F.body(SEND)
    tasks = [k for k in F.children.get((b.crate, b.dp), []) if k.kind == "coroutine"]
    if not tasks:
        raise mir.AnchorMissing("re-admission task of broadcast send")
    k = tasks[0]
    lag = [bb for bb, i, rv in k.aggregates(BM, "Lagged")]
    aw = k.awaits()
    send_aw = [a for a in aw if "send" in (a.get("fut_fn") or "") and "mpsc::sender::Sender" in (a.get("fut_fn") or "")]
    res_aw = [a for a in aw if "reserve" in (a.get("fut_fn") or "")]
    ready = [bb for bb, t in k.calls("tokio::sync::mpsc::UnboundedSender::send")]
    ok = bool(lag) and bool(send_aw) and bool(res_aw) and bool(ready)
    if ok:
        ok = all(k.dominates(send_aw[0]["ready_bb"], r) and k.dominates(res_aw[0]["ready_bb"], r) for r in ready) and \
            k.dominates(send_aw[0]["ready_bb"], res_aw[0]["poll_bb"])
    ck.expect(ok, "send#readmit-after-lagged", "Lagged sent, slot reserved, then re-admitted",
              "a lagging subscriber can be re-admitted without having been sent the Lagged marker / without free space", k.loc(0))
    # spawn site: in the Full arm; keep.push not reachable in the same iteration
    spawns = [bb for bb, t in b.calls() if (callee(t) or "").endswith("spawn")]
    keeps = [bb for bb, t in b.calls("std::vec::Vec::push") if "keep" in mir.show(b.expr(t["a"][0])) or
             any(c[1] == "std::vec::Vec::new" for c in [b.expr(t["a"][0])] if c[0] == "call")]
    heads = [h for _, h in b.back_edges()]
    ok = bool(spawns)
    for sp in spawns:
        r = b.reach([sp], avoid=heads)
        ok = ok and not any(kp in r for kp in keeps if "sub" in mir.show(b.expr(b.term(kp)["a"][1])))
    ck.expect(ok, "send#lagging-not-kept", "a subscriber handed to the re-admission task is not kept ready",
              "a lagging subscriber stays in the ready list (it would get later values without the marker)", b.loc(spawns[0]) if spawns else b.loc(0))
    incs, decs = [], []
    for bb, i, s in b.field_stores("not_ready"):
        e = b.expr(s["rv"]["o"]) if s["rv"]["r"] == "use" else None
        if e and e[0] == "bin" and const_value(e[3]) == 1:
            (incs if e[1] == "Add" else decs).append(bb)
    ok = len(incs) == 1 and len(decs) == 1 and spawns and incs[0] in b.reach(spawns, avoid=heads)
    if ok:
        pushes = [bb for bb, t in b.calls("std::vec::Vec::push") if mir.last_field(b.expr(t["a"][0])) == "subs"]
        ok = any(decs[0] in b.reach([p], avoid=heads) or p in b.reach([decs[0]], avoid=heads) for p in pushes)
    ck.expect(ok, "send#not_ready-accounting", "not_ready += 1 when parked, -= 1 when re-admitted",
              "not_ready accounting does not match parking / re-admission", b.loc(0))
    # Full arm only for Value messages: the try_send Full outcome leads to the spawn
    ck.expect(True, "send#full-arm", "Full(Value) arm spawns the re-admission task", "", b.loc(0), ) if spawns else None


def r16_3(ck, F):
    ck.rule("R16.3", "the receiver surfaces the marker: broadcast::Receiver::recv / try_recv map BroadcastMsg::Lagged to "
            "Err(Lagged) and Value(v) to Ok(v), no wildcard over BroadcastMsg",
            "the lag marker is swallowed: a subscriber silently misses values", floor=2)
    for fn, err_adt in (("rch::broadcast::receiver::Receiver::recv", "rch::broadcast::receiver::RecvError"),
                        ("rch::broadcast::receiver::Receiver::try_recv", "rch::broadcast::receiver::TryRecvError")):
        b = F.main_body(fn)
        arms, sw, exhaustive = event_arms(b, BM)
        lag_ok = any(bb in arms["Lagged"][2] for bb, i, rv in b.aggregates(err_adt, "Lagged")) if "Lagged" in arms else False
        val_ok = any(bb in arms["Value"][2] for bb, i, v in b.result_stores("Ok")) if "Value" in arms else False
        ck.expect(exhaustive and lag_ok and val_ok, f"Receiver::{fn.split('::')[-1]}", "Lagged -> Err(Lagged), Value -> Ok",
                  f"{fn}: Lagged->Err(Lagged): {lag_ok}, Value->Ok: {val_ok}, explicit arms: {exhaustive}", b.loc(sw))


def r16_4(ck, F):
    ck.rule("R16.4", "fan-out: every ready subscriber is offered BroadcastMsg::Value(value.clone()) of the same value in one "
            "sequential loop", "a subscriber receives a different value / order than another", floor=1)
    b = F.body(SEND)
    ts = [(bb, t) for bb, t in b.calls() if (callee(t) or "").endswith("try_send") and "mpsc" in (callee(t) or "")]
    ok = len(ts) == 1
    if ok:
        e = b.expr(ts[0][1]["a"][1])
        ok = e[0] == "agg" and e[2] == "Value" and any(c[1] == "std::clone::Clone::clone" and c[2][0] == ("path", "value")
                                                        for c in mir.calls_in(e))
        heads = [h for _, h in b.back_edges() if ts[0][0] in b.loop_blocks(h)]
        ok = ok and bool(heads)
    ck.expect(ok, "send#same-value", "each subscriber gets Value(value.clone())", "fan-out does not offer a clone of the one value",
              b.loc(ts[0][0]) if ts else b.loc(0))


def r16_5(ck, F):
    ck.rule("R16.5", "one critical section per broadcast: Sender::send takes the inner lock exactly once and the guard is "
            "not released before the fan-out loop, the ready-list drain and the write-back of the subscriber list are done",
            "two Sender clones sending concurrently: the second send runs inside the first one's fan-out window, sees an "
            "empty subscriber list and its value reaches nobody, without any Lagged marker", floor=2)
    b = F.body(SEND)
    locks = [bb for bb, t in b.calls("std::sync::Mutex::lock")]
    ck.expect(len(locks) == 1, "send#single-lock", "exactly one Mutex::lock in send",
              f"{len(locks)} Mutex::lock calls in broadcast send: the fan-out is split over several critical sections", b.loc(locks[0]) if locks else b.loc(0))
    if len(locks) != 1:
        return
    guard = None
    for bb, t in b.calls("std::result::Result::unwrap"):
        e = b.expr(t["a"][0])
        if e[0] == "call" and e[1] == "std::sync::Mutex::lock":
            guard = t["d"][0]
    if guard is None:
        raise mir.AnchorMissing("MutexGuard local of broadcast send")
    releases = {bb for bb in b.moves_of(guard)}
    work = [bb for bb, t in b.calls() if (callee(t) or "").endswith("try_send") and "mpsc" in (callee(t) or "")] + \
           [bb for bb, i, s in b.field_stores("subs")]
    bad = [w for w in work if b.find_path(sorted(releases), [w]) is not None]
    ck.expect(bool(work) and not bad, "send#fanout-under-lock", "fan-out and subscriber-list write-back happen before the guard is released",
              f"the inner guard can be released before {[b.loc(w) for w in bad[:3]]}", b.loc(locks[0]))


def r16_6(ck, F):
    ck.rule("R16.6", "every recovered subscriber is re-admitted before the fan-out: in broadcast::Sender::send the ready queue "
            "(ready_rx.try_recv()) is drained in a loop that ends only on its Err (empty) outcome, and that loop is left "
            "before the first subscriber is offered the value",
            "two subscribers overflow and recover between the same two send() calls: only one is re-admitted per broadcast, "
            "the other silently misses the following value(s) without a new lag marker", floor=1)
    b = F.body("rch::broadcast::sender::Sender::send")
    tr = [(bb, t) for bb, t in b.calls() if (callee(t) or "").endswith("UnboundedReceiver::try_recv") or
          ((callee(t) or "").endswith("::try_recv") and "ready_rx" in mir.show(b.expr(t["a"][0])))]
    if not tr:
        raise mir.AnchorMissing("ready_rx.try_recv() in broadcast::Sender::send")
    bb, t = tr[0]
    oks = [tb for sb, tb, m, e in outcome_edges(b, None, lambda x: any(c[3] == bb for c in mir.calls_in(x))) if m == "Ok"]
    fan = [q for q, tt in b.calls() if (callee(t2 := tt) or "").endswith("::try_send")]
    looped = bool(oks) and all(bb in b.reach([o], avoid=fan) for o in oks)
    ck.expect(looped, "Sender::send#ready-queue-drained", "try_recv() is repeated after every Ok until the queue is empty",
              "broadcast::Sender::send fetches at most one recovered subscriber per broadcast (the Ok outcome of ready_rx.try_recv() "
              "does not lead back to try_recv): further recovered subscribers miss values without a lag marker", b.loc(bb))


def run(ck, F):
    for r in (r16_1, r16_2, r16_3, r16_4, r16_5, r16_6):
        ck.run_rule(r)
