"""C19 — abandoned or failing calls are cancelled and never wedge the server."""
import mir
from mir import callee
from common import *  # noqa: F401,F403
from rtc_common import *  # noqa: F401,F403

THOROUGH_CONFIGS = ["full-codecs", "json-codec", "tests"]

EXPLANATION = (
    "Static MIR rules over the expansion of #[remoc::rtc::remote] (witness crate covering every receiver kind, "
    "cancellable and #[no_cancel] methods, generics and all five server flavours; in the thorough tier also remoc's test "
    "traits) and over remoc::rtc: R19.1 the per-method dispatch future races the method against closure of its own "
    "reply channel in one biased select exactly when the method is not #[no_cancel]; R19.2 generated code and remoc::rtc "
    "never leak a guard (no mem::forget / ManuallyDrop / Box::leak) and contain no unsafe block; R19.3 the serve loops "
    "keep serving after non-final receive errors (OnReqReceiveError::handle's default returns Ok) and unknown request "
    "kinds; R19.4 a failing reply must not stop the serve loop (today it does: known finding F6); R19.5 the request queue (rch::mpsc::Receiver::recv / "
    "poll_recv / try_recv / recv_many) holds final errors of single senders back until the queue is closed, so one or "
    "several lost client connections do not end the serve loop; R19.6 rtc::send_reply does not report a reply whose caller "
    "or connection went away (Dropped, Send(Send)) on the reply-error channel. When the callee is "
    "abandoned and behaviour with concurrent clients are not decided."
)
ASSUMPTIONS = [
    "tokio::select! semantics (biased: branches polled in order; dropping the select drops the losing future)",
    "the witness traits cover the shapes the generator distinguishes (receiver kind x cancel attribute x generics)",
    "which witness methods are #[no_cancel] is encoded in their names (suffix _nc), read from witness/src/lib.rs",
]
NOT_DECIDED = ["at which suspension point an abandoned callee stops", "behaviour with concurrent clients",
               "undecodable requests are classified non-final by rch::mpsc::RecvError::is_final (see C04)"]

CLOSED = "remoc::rch::oneshot::Sender::closed"


def r19_1(ck, F):
    ck.rule("R19.1", "each generated dispatch future polls oneshot::Sender::closed() of its own __reply_tx in the same "
            "(biased) select as the trait method iff the method is not #[no_cancel]",
            "caller drops the call future of a long-running method: without the race the server keeps executing it (and "
            "holding the target lock); with a race on a #[no_cancel] method a cancelled mutation is torn", floor=10)
    for b, meth, kind in dispatch_coroutines(F):
        if meth is None:
            continue
        trait, name, mbb = meth
        site = f"{trait}::{name}#dispatch"
        closed = [(bb, t) for bb, t in b.calls(CLOSED)]
        has_race = bool(closed)
        if b.crate == "remoc_witness":
            want = not name.endswith("_nc")
            ck.expect(has_race == want, site + "#race", f"cancellation race generated: {has_race} (method is "
                      f"{'cancellable' if want else '#[no_cancel]'})",
                      f"method {name} is {'cancellable' if want else '#[no_cancel]'} but the generated dispatch "
                      f"{'does not race' if want else 'races'} it against closure of the reply channel", b.loc(mbb))
        if has_race:
            # closed() is called on the reply sender of this request, and polled inside the same poll_fn closure
            rcv = b.expr(closed[0][1]["a"][0])
            ok_own = "__reply_tx" in mir.show(rcv)
            kids = F.children.get((b.crate, b.dp), [])
            polls = []
            for k in kids:
                ps = [t["fn"].get("self_ty", "") for bb, t in k.calls(("futures::Future::poll", "std::future::Future::poll"))]
                polls.append((k, ps))
            same = any(sum(1 for p in ps if p) >= 2 for k, ps in polls)
            biased = all(not list(k.calls("tokio::macros::support::thread_rng_n")) for k, _ in polls) and \
                not list(b.calls("tokio::macros::support::thread_rng_n"))
            ck.expect(ok_own and same and biased, site + "#own-channel-biased",
                      "closed() of the request's own __reply_tx, polled with the method in one biased select",
                      f"race is not on the request's own reply channel / not in one biased select "
                      f"(own={ok_own}, same-select={same}, biased={biased})", b.loc(closed[0][0]))
        # the reply is sent on the request's own reply channel
        for bb, t in b.calls("remoc::rtc::send_reply"):
            e = b.expr(t["a"][0])
            ck.expect("__reply_tx" in mir.show(e), site + "#reply-channel", "send_reply uses the request's __reply_tx",
                      f"send_reply called with {mir.show(e)}", b.loc(bb))


def r19_2(ck, F):
    ck.rule("R19.2", "generated RPC code and remoc::rtc contain no mem::forget / ManuallyDrop::new / Box::leak and no "
            "user-written unsafe block: lock guards are plain locals released when the dispatch future is dropped",
            "a cancelled mutable call would keep the target's write lock forever", floor=2)
    bad_calls = {"std::mem::forget", "std::mem::ManuallyDrop::new", "std::boxed::Box::leak", "core::mem::forget",
                 "std::mem::ManuallyDrop::<T>::new"}
    n = 0
    hits = []
    for b in F.by_dp.values():
        gen = b.crate in USER_CRATES and (DISPATCH_RE.search(mir.strip_generics(b.path)) or "::serve" in b.path)
        rtc = b.crate == "remoc" and b.file.endswith("rtc/mod.rs")
        if not (gen or rtc):
            continue
        n += 1
        for bb, t in b.calls():
            if callee(t) in bad_calls:
                hits.append((b, bb, callee(t)))
    ck.expect(not hits and n > 30, "generated+rtc#no-leak", f"{n} bodies scanned, no guard-leaking call",
              f"guard-leaking calls: {[(x.path, c) for x, _, c in hits]}", hits[0][0].loc(hits[0][1]) if hits else None)
    ub = [u for u in F.unsafe_blocks if u.get("user") and not u.get("x") and
          (u["crate"] in USER_CRATES or (u["crate"] == "remoc" and u["file"].endswith("rtc/mod.rs")))]
    ub_gen = [u for u in F.unsafe_blocks if u["crate"] == "remoc_witness" and u.get("user") and
              not any(s in u["owner"] for s in ("serde", "Deserialize", "Serialize"))]
    # macro-generated code is `x: true`; tokio's select!/pin! expand to internal unsafe that is compiler-marked
    ck.expect(not ub, "generated+rtc#no-unsafe", "no hand-written unsafe block in remoc::rtc or the witness",
              f"unsafe blocks: {[(u['file'], u['line']) for u in ub[:5]]}", None)


def r19_3(ck, F):
    ck.rule("R19.3", "serve loops keep serving: OnReqReceiveError::handle returns Ok for the default policy; in every "
            "generated serve loop the request receive is reachable again after handle() succeeded",
            "one undecodable request would stop the whole server", floor=8)
    hb = F.main_body("rtc::OnReqReceiveError::handle")
    adt = F.adt("rtc::OnReqReceiveError")
    variants = [v["name"] for v in adt["variants"]]
    # default variant: the Default impl constructs it
    db = [b for k, b in F.bodies.items() if k.startswith("<rtc::OnReqReceiveError as std::default::Default>::default")]
    default = None
    for b in db:
        for bb, i, rv in b.aggregates("rtc::OnReqReceiveError"):
            default = rv["variant"]
    ck.expect(default is not None, "OnReqReceiveError#default", f"default policy is {default}",
              "no Default construction found", None)
    # arm of the default variant in handle constructs Ok
    from robs_common import event_arms
    arms, sw, _ = event_arms(hb, "rtc::OnReqReceiveError")
    if default in arms:
        region = arms[default][2]
        oks = [bb for bb, i, v in hb.result_stores("Ok") if bb in region]
        errs = [bb for bb, i, v in hb.result_stores("Err") if bb in region]
        ck.expect(bool(oks) and not errs, "OnReqReceiveError::handle#default-ok", f"{default} arm returns Ok",
                  f"{default} arm of handle does not return Ok", hb.loc(sw))
    for b, flavour in serve_coroutines(F):
        site = short(b.path)
        handles = [a for a in b.awaits() if (a.get("fut_fn") or "").startswith("remoc::rtc::OnReqReceiveError::handle")]
        sel = [a for a in b.awaits() if "PollFn" in (a.get("fut_fn") or "") or "PollFn" in a.get("fut_ty", "")]
        if not handles or not sel:
            ck.bad(site + "#handle", "serve loop without OnReqReceiveError::handle / request select", b.loc(0))
            continue
        h = handles[0]
        again = any(s["yield_bb"] in b.reach([h["ready_bb"]]) or s["poll_bb"] in b.reach([h["ready_bb"]]) for s in sel)
        ck.expect(again, site + "#continues-after-handled-error", "the request select is reachable again after handle()",
                  "serve loop cannot continue after a handled receive error", b.loc(h["yield_bb"]))


def r19_4(ck, F):
    ck.rule("R19.4", "a failing reply fails only its call: no Return of a generated serve loop is reachable from the "
            "reply-error arm (err_rx.recv() yielding Some) while requests can still arrive",
            "one oversized / unserialisable reply stops the server for every client (rtc::send_reply forwards the "
            "item-specific error to the serve loop, which returns Err(ServeError::ReplySend))", floor=5)
    per_flavour = {}
    for b, flavour in serve_coroutines(F):
        # the select's output enum: arm 0 = `Some(err) = err_rx.recv()`; it converts the error with Into/From and returns.
        conv = [bb for bb, t in b.calls(("std::convert::Into::into", "std::convert::From::from"))
                if "SendingErrorKind" in " ".join(t["fn"].get("args", [])) and "ServeError" in " ".join(t["fn"].get("args", []) + [t.get("dty", "")])]
        loop_sel = [a for a in b.awaits() if "PollFn" in (a.get("fut_fn") or "") or "PollFn" in a.get("fut_ty", "")]
        if not loop_sel:
            ck.bad(f"{flavour}::serve#select", f"no request select found in {b.path}", b.loc(0))
            continue
        sel_blocks = {a["poll_bb"] for a in loop_sel}
        # conversions reachable from the select's ready arm without going through the loop exit (drop(err_tx))
        exits = {bb for bb, t in b.calls("std::mem::drop")}
        in_loop = [c for c in conv if any(c in b.reach([a["ready_bb"]], avoid=exits) for a in loop_sel if a.get("ready_bb") is not None)]
        rets = set(b.returns())
        bad = [c for c in in_loop if b.find_path([c], rets, avoid=sel_blocks)]
        per_flavour.setdefault(flavour, []).append((b, bad))
    for flavour, insts in sorted(per_flavour.items()):
        bad = [(b, x) for b, x in insts if x]
        ck.expect(not bad, f"{flavour}::serve", f"reply errors do not terminate the serve loop ({len(insts)} instance(s))",
                  f"the generated {flavour}::serve returns Err(ServeError::ReplySend) from inside the request loop when a "
                  f"reply failed: one oversized / unserialisable reply stops the server "
                  f"({len(bad)} of {len(insts)} expansions, e.g. {short(bad[0][0].path) if bad else ''})",
                  bad[0][0].loc(bad[0][1][0]) if bad else None,
                  {"expansions": [b.path for b, _ in bad], "generator": "remoc_macro/src/trait_def.rs"})


def r19_5(ck, F):
    ck.rule("R19.5", "a lost client connection does not stop the server: in rch::mpsc::Receiver::{recv, poll_recv, try_recv, "
            "recv_many} (the request queue of every serve loop) no return is reachable from the is_final() == true edge of a "
            "received error without going back to the queue; the held-back error is only returned once the queue is closed",
            "the second client whose connection fails makes recv() return a final error, every generated serve loop takes "
            "that as `all clients gone` and stops serving the remaining clients", floor=4)
    R = "rch::mpsc::receiver::Receiver::"
    for m, q in (("recv", "tokio::sync::mpsc::Receiver::recv"), ("poll_recv", "tokio::sync::mpsc::Receiver::poll_recv"),
                 ("try_recv", "tokio::sync::mpsc::Receiver::try_recv"), ("recv_many", "tokio::sync::mpsc::Receiver::recv_many")):
        b = F.main_body(R + m)
        qs = [bb for bb, t in b.calls(q)]
        if not qs:
            raise mir.AnchorMissing(f"{q} in {R}{m}")
        fin = [(sb, tb) for sb, tb, mm, e in switch_edges(b, lambda e: bool(mir.calls_in(e, "rch::base::receiver::RecvError::is_final")) or
                                                           bool(mir.calls_in(e, "rch::mpsc::receiver::RecvError::is_final")))
               if mm is True and not b.is_cleanup(sb)]
        if not fin:
            ck.bad(f"mpsc::Receiver::{m}#is-final", f"{R}{m} does not distinguish final errors (is_final) of a received request", b.loc(0))
            continue
        if m == "recv_many":
            # batch form: the final error is stored and the batch loop goes on; no Err return from the final edge
            errs = [x for x, i, v in b.result_stores("Err")]
            bad = [(sb, b.find_path([tb], errs, avoid=[sb])) for sb, tb in fin]
        else:
            bad = [(sb, b.find_path([tb], b.returns(), avoid=qs)) for sb, tb in fin]
        bad = [(sb, p) for sb, p in bad if p]
        ck.expect(not bad, f"mpsc::Receiver::{m}#final-held-back", f"{len(fin)} is_final() edge(s): all continue with the queue",
                  f"{R}{m} returns from the final-error branch while senders remain (path {bad[0][1] if bad else ''})",
                  b.loc(bad[0][0]) if bad else None)


def r19_5b(ck, F):
    ck.rule("R19.5b", "a held-back connection failure is reported when the queue ends: in rch::mpsc::Receiver::{recv, poll_recv, "
            "try_recv, recv_many} every path from the `queue closed` outcome of the local queue operation (None / Disconnected / "
            "0 received) to a return passes take_error() (or final_err.take()), whose Some outcome is returned as the error",
            "connection to a live remote sender fails, consumer uses the poll path (Stream::next, oneshot receiver future): the "
            "stored failure is swallowed and the consumer sees a regular end-of-stream / Closed instead of the connection error",
            floor=4)
    R = "rch::mpsc::receiver::Receiver::"
    for m, q in (("recv", "tokio::sync::mpsc::Receiver::recv"), ("poll_recv", "tokio::sync::mpsc::Receiver::poll_recv"),
                 ("try_recv", "tokio::sync::mpsc::Receiver::try_recv"), ("recv_many", "tokio::sync::mpsc::Receiver::recv_many")):
        b = F.main_body(R + m)
        def uses_q(x, q=q):
            """x is the result of the queue operation itself (looked at through projections, `.await`, `?`, ready!), not a
            value computed from it by further calls (e.g. the outcome of a helper that classifies the received error)."""
            for _ in range(12):
                if not isinstance(x, tuple) or not x:
                    return False
                if x[0] == "call":
                    return x[1] == q
                if x[0] in ("proj", "await", "try", "cast", "discr") and len(x) > 1:
                    x = x[1] if x[0] != "cast" else x[2]
                elif x[0] == "var" and len(x) > 3 and len(x[3]) == 1:
                    x = x[3][0]
                elif x[0] == "bin":
                    return uses_q(x[2]) or uses_q(x[3])
                else:
                    return False
            return False
        if m == "recv_many":
            ended = [tb for sb, tb, mm, e in switch_edges(b, lambda e: e[0] == "bin" and e[1] in ("Eq", "Ne") and uses_q(e))
                     if (mm is True) == (switch_expr(b, sb)[1] == "Eq")]
        else:
            want = "Disconnected" if m == "try_recv" else "None"
            ended = [tb for sb, tb, mm, e in outcome_edges(b, None, uses_q) if mm == want]
        if not ended:
            raise mir.AnchorMissing(f"`queue closed` outcome of {q} in {R}{m}")
        takes = {bb for bb, t in b.calls("rch::mpsc::receiver::Receiver::take_error")} | \
                {bb for bb, t in b.calls("std::option::Option::take") if mir.last_field(b.expr(t["a"][0])) == "final_err"}
        p = b.find_path(ended, b.returns(), avoid=takes)
        ck.expect(bool(takes) and p is None, f"mpsc::Receiver::{m}#held-back-error-surfaces",
                  "queue closed -> take_error() before returning",
                  f"{R}{m} can return from the `queue closed` outcome without consulting the held-back final error: a connection "
                  f"failure is reported as a regular end of the channel", b.loc(ended[0]), {"path": [b.loc(x) for x in (p or [])][:10]})
        # and the Some outcome of that take is returned as an error (not dropped)
        ok = False
        for sb, tb, mm, e in outcome_edges(b, None, lambda x: bool(mir.calls_in(x, "rch::mpsc::receiver::Receiver::take_error")) or
                                           (bool(mir.calls_in(x, "std::option::Option::take")) and "final_err" in mir.show(x))):
            if mm == "Some":
                errs = {x for x, i, v in b.result_stores("Err")} | {x for x, i, rv in b.aggregates("std::result::Result", "Err")}
                ok = ok or bool(b.reach([tb], avoid=[sb]) & errs)
        ck.expect(ok, f"mpsc::Receiver::{m}#held-back-error-returned", "Some(err) from take_error() is returned as Err",
                  f"{R}{m} does not return the held-back error obtained from take_error()", b.loc(ended[0]))


def r19_6(ck, F):
    ck.rule("R19.6", "a caller that went away while the reply was in flight is not a server error: in the task spawned by "
            "rtc::send_reply the SendingErrorKind::Dropped edge and the SendingErrorKind::Send(SendErrorKind::Send) edge never "
            "reach err_tx.send(kind)", "a call future dropped between queueing and transmission of its reply is reported on "
            "the reply-error channel and (F6) terminates the serve loop for all clients", floor=2)
    fam = F.family("rtc::send_reply")
    ks = [k for k in fam if k.kind == "coroutine" and list(k.calls("tokio::sync::mpsc::Sender::send"))]
    if not ks:
        raise mir.AnchorMissing("error-forwarding task of rtc::send_reply")
    k = ks[0]
    snd = [bb for bb, t in k.calls("tokio::sync::mpsc::Sender::send")]
    outer = switch_edges(k, lambda e: e[0] == "discr" and "SendingErrorKind" in str(e[-1] if isinstance(e[-1], str) else e))
    def variants_of(sb):
        for st in k.stmts(sb):
            rv = st.get("rv") or {}
            if rv.get("r") == "discr":
                return rv.get("adt", ""), [v[1] for v in rv.get("variants", [])]
        return "", []
    found = {"Dropped": False, "Send": False}
    bad = []
    for sb in sorted({bb for bb in k.reachable if k.term(bb)["t"] == "switch"}):
        adt, vs = variants_of(sb)
        t = k.term(sb)
        edges = [(v, tb) for v, tb in t["targets"]] + [(None, t["otherwise"])]
        for v, tb in edges:
            mm = switch_meaning(k, sb, v)
            names = list(mm) if isinstance(mm, tuple) else [mm]
            if adt.endswith("rch::SendingErrorKind") and "Dropped" in names:
                found["Dropped"] = True
                if len(names) > 1 or k.find_path_cp([tb], snd, avoid=[sb]):
                    bad.append(("Dropped", sb))
            if adt.endswith("rch::base::sender::SendErrorKind") or adt.endswith("base::SendErrorKind"):
                if "Send" in names:
                    found["Send"] = True
                    if len(names) > 1 or k.find_path_cp([tb], snd, avoid=[sb]):
                        bad.append(("Send(Send)", sb))
    for what in ("Dropped", "Send"):
        hit = [x for x in bad if x[0].startswith(what)]
        ck.expect(found[what] and not hit, f"send_reply#{what}-not-reported", f"{what}: filtered before err_tx.send",
                  f"rtc::send_reply forwards SendingErrorKind::{what} (caller / connection gone) to the reply-error channel"
                  if found[what] else f"rtc::send_reply does not single out SendingErrorKind::{what}", k.loc(hit[0][1]) if hit else k.loc(0))


def run(ck, F):
    for r in (r19_1, r19_2, r19_3, r19_4, r19_5, r19_5b, r19_6):
        ck.run_rule(r)
