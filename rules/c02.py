"""C02 — flow control safety: advertised receive buffer and chunk size never exceeded."""
import mir
from mir import callee
from common import *  # noqa: F401,F403

EXPLANATION = (
    "Static MIR rules deciding, link by link, the conservation argument behind C02: credit leaves the sender's pool "
    "only through guarded subtractions (R02.3, R02.4), a frame is constructed only after taking exactly its length in "
    "credit (R02.1) and is clamped to the peer's chunk size and the available credit (R02.2), the receiver accounts "
    "every frame against its limit after checking the chunk size (R02.6), receive credit is an unforgeable linear "
    "token that is returned only on consumption and exactly once (R02.5), and the limits are wired from the right "
    "configuration (R02.7). Each clause is a necessary condition; the numeric bound over all wire histories is not "
    "computed."
)
ASSUMPTIONS = [
    "rustc's MIR construction is faithful; panic/unwind edges ignored",
    "Bytes::split_to(at) returns exactly the first `at` bytes and leaves the rest; Ord::min is the minimum",
    "struct privacy: ChannelCreditsInner / UsedCredit fields are private to chmux/credit.rs (checked from the ADT table)",
]
NOT_DECIDED = ["the numeric bound at every prefix of the wire trace", "arbitrarily delayed credit frames"]

CREDIT_RS = "chmux/credit.rs"


def _min_leaves(e):
    """Flatten nested Ord::min calls into their leaf expressions."""
    e = mir.strip_casts(e)
    if isinstance(e, tuple) and e and e[0] == "call" and e[1] in ("std::cmp::Ord::min", "std::cmp::min"):
        out = []
        for a in e[2]:
            out.extend(_min_leaves(a))
        return out
    return [e]


def _emit_sites(F):
    for path, b in emit_bodies(F):
        k = 0
        for bb, i, rv in sorted(b.aggregates(PORT_EVT), key=lambda x: (x[0], x[1])):
            if rv["variant"] in ("SendData", "SendPorts"):
                yield path, b, bb, i, rv, f"{fn_short(path)}#{rv['variant']}{k}"
                k += 1


def r02_1(ck, F):
    ck.rule("R02.1", "every PortEvt::SendData / SendPorts construction is dominated by AssignedCredits::take(n) of "
            "the same iteration with n = byte length of exactly the chunk moved into the event (1 for the empty "
            "message, 4 per port)",
            "any send while the peer's buffer is nearly full: the sender overdraws and the peer reports 'used too "
            "many flow credits' (or over-buffers)", floor=5)
    emit_api_coverage(ck, F)
    for path, b, bb, i, rv, site in _emit_sites(F):
        takes = [t for t, _ in b.calls(TAKE) if b.dominates(t, bb)]
        # same iteration: nearest dominating take from which the aggregate is reachable without passing another take
        takes = [t for t in takes if bb in b.reach([t], avoid=[x for x in takes if x != t])]
        if not takes:
            ck.bad(site, "event constructed without a dominating AssignedCredits::take", b.loc(bb, i))
            continue
        t = max(takes, key=lambda x: len(b.dom[x]))
        amount = mir.strip_casts(b.expr(b.term(t)["a"][1]))
        fld = "data" if rv["variant"] == "SendData" else "ports"
        payload = b.expr(rv["ops"][rv["fields"].index(fld)])
        ok = False
        why = ""
        if fld == "data":
            if amount[0] == "call" and amount[1] == "bytes::Bytes::len" and amount[2] and mir.same_value(amount[2][0], payload):
                ok, why = True, f"take({mir.show(amount)}) where the argument of len is the chunk moved into the event"
            elif const_value(amount) == 1 and payload[0] in ("path", "var", "call"):
                # empty message: the construction is control dependent on is_empty(payload) == true
                ce = [(s, v) for s, tb, v in controlling_edges(b, bb)
                      if switch_expr(b, s)[:2] == ("call", "bytes::Bytes::is_empty") and switch_meaning(b, s, v) is True
                      and mir.same_value(switch_expr(b, s)[2][0], payload)]
                ok, why = bool(ce), "take(1) for the empty message (guarded by is_empty())"
        else:
            if amount[0] == "bin" and amount[1] == "Mul":
                ln = [x for x in (mir.strip_casts(amount[2]), mir.strip_casts(amount[3]))
                      if x[0] == "call" and x[1] == "std::vec::Vec::len"]
                unit = [size_of_value(x) for x in (amount[2], amount[3]) if size_of_value(x)]
                ok = bool(ln) and mir.same_value(ln[0][2][0], payload) and unit == [4]
                why = f"take({mir.show(amount)}) for the vector moved into the event"
        ck.expect(ok, site, why or "amount matches payload",
                  f"credit taken ({mir.show(amount)}) is not the length of the payload moved into the event "
                  f"({mir.show(payload)})", b.loc(bb, i),
                  {"take_at": b.loc(t), "amount": mir.show(amount), "payload": mir.show(payload)})


def r02_1b(ck, F):
    ck.rule("R02.1b", "every frame costs at least one credit on the sending side (the receiver charges max(len, 1)): the "
            "amount taken is a constant >= 1, or the byte length of a chunk split off a buffer that is known non-empty "
            "(the emit is control-dependent on is_empty() == false of that buffer)",
            "empty messages sent without spending a credit: unlimited frames in flight and a sender pool that drifts "
            "above the peer's receive buffer", floor=4)
    for path, b, bb, i, rv, site in _emit_sites(F):
        if rv["variant"] != "SendData":
            continue
        takes = [t for t, _ in b.calls(TAKE) if b.dominates(t, bb)]
        takes = [t for t in takes if bb in b.reach([t], avoid=[x for x in takes if x != t])]
        if not takes:
            continue
        t = max(takes, key=lambda x: len(b.dom[x]))
        amount = mir.strip_casts(b.expr(b.term(t)["a"][1]))
        c = const_value(amount)
        if c is not None:
            ck.expect(c >= 1, site + "#min-cost", f"take({c})", f"frame costs {c} credits", b.loc(t))
            continue
        payload = b.expr(rv["ops"][rv["fields"].index("data")])
        buf = payload[2][0] if payload[0] == "call" and payload[1] == "bytes::Bytes::split_to" else None
        ok = False
        # innermost program loop around the take: the non-emptiness fact must hold in *every* iteration
        loops = [b.loop_blocks(h) for _, h in b.back_edges() if t in b.loop_blocks(h)]
        loop = min(loops, key=len) if loops else None
        if buf is not None:
            for s, tb, v in controlling_edges(b, t):
                e = switch_expr(b, s)
                if e[:2] == ("call", "bytes::Bytes::is_empty") and mir.same_value(e[2][0], buf) and switch_meaning(b, s, v) is False \
                        and (loop is None or s in loop):
                    ok = True
        if ok or buf is None or loop is None:
            ck.expect(ok, site + "#min-cost", "chunk taken from a buffer known to be non-empty in this iteration",
                      f"take({mir.show(amount)[:60]}) can be zero: the emit is not guarded by the buffer being non-empty",
                      b.loc(t))
            continue
        # counted loop (try_send): the buffer is non-empty at entry (outer guard) and the loop runs once per reserved
        # permit; every iteration emits a non-empty chunk iff  #permits == ceil(len / split size bound)
        entry_guard = any(switch_expr(b, s)[:2] == ("call", "bytes::Bytes::is_empty") and switch_meaning(b, s, v) is False
                          for s, tb, v in controlling_edges(b, t))
        nexts = [(q, tt) for q, tt in b.calls("std::iter::Iterator::next") if q in loop]
        count = None
        for q, tt in nexts:
            for c in mir.calls_in(b.expr(tt["a"][0])):
                if c[1].endswith("::try_reserve_many") or c[1].endswith("::reserve_many"):
                    count = c[2][1]
        at = payload[2][1]
        if count is None or not entry_guard:
            ck.bad(site + "#min-cost", f"take({mir.show(amount)[:60]}) can be zero: inside the loop the emit is not guarded by the "
                   f"buffer being non-empty and no permit count bounds the iterations", b.loc(t))
            continue

        ARITH = {"min", "max", "div_ceil", "next_multiple_of", "saturating_sub", "saturating_add", "wrapping_add", "wrapping_sub",
                 "checked_add", "checked_sub", "saturating_mul", "unwrap"}

        def leaf(n, cs, other):
            def f(e):
                if e[0] == "call" and e[1] == "bytes::Bytes::len":
                    return n
                if mir.last_field(e) == "chunk_size":
                    return cs
                if e[0] == "call" and e[1].split("::")[-1] not in ARITH:
                    return other        # any other quantity (queue capacity, ...): the count must not depend on it
                if e[0] == "path":
                    return other
                return None
            return f
        cex = None
        try:
            for other in (1, 3, 1000):
                for cs in range(1, 13):
                    for n in range(1, 49):
                        # the split bound is min(len, chunk_size): frames needed = ceil(n / min-bound evaluated with len = n)
                        bound = term_eval(at, leaf(10 ** 9, cs, other))
                        want = -(-n // bound) if bound > 0 else None
                        got = term_eval(count, leaf(n, cs, other))
                        if want is None or got != want:
                            cex = (n, cs, got, want)
                            raise StopIteration
        except StopIteration:
            pass
        except Unevaluable as ex:
            ck.inconclusive(site + "#min-cost", f"permit count {mir.show(count)[:60]} / split bound {mir.show(at)[:60]} outside the "
                            f"arithmetic fragment ({ex})", b.loc(t))
            continue
        ck.expect(cex is None, site + "#min-cost",
                  f"permit count {mir.show(count)[:50]} = ceil(len / split bound) for all 1<=len<=48, 1<=chunk_size<=12",
                  f"the loop emits one frame per reserved permit, but #permits = {mir.show(count)[:60]} differs from the number of "
                  f"non-empty chunks: for len={cex[0] if cex else ''}, chunk_size={cex[1] if cex else ''} it is {cex[2] if cex else ''} "
                  f"instead of {cex[3] if cex else ''} — the surplus frame is empty and is emitted with take(0)", b.loc(t),
                  {"counterexample": {"len": cex[0], "chunk_size": cex[1], "permits": cex[2], "chunks": cex[3]} if cex else None})


def r02_2(ck, F):
    ck.rule("R02.2", "the split size of every emitted chunk is a minimum over {remaining length, the peer's chunk_size, "
            "available credit}; try_send requests the whole length up front; connect clamps the port count by "
            "min(chunk_size, available)/4",
            "a message larger than the peer's chunk size or than the credit at hand would be sent in one frame", floor=4)
    for path, b, bb, i, rv, site in _emit_sites(F):
        if rv["variant"] == "SendData":
            payload = b.expr(rv["ops"][rv["fields"].index("data")])
            if payload[0] != "call" or payload[1] != "bytes::Bytes::split_to":
                continue   # empty message site
            buf, at = payload[2][0], payload[2][1]
            leaves = _min_leaves(at)
            shown = [mir.show(x) for x in leaves]
            has_len = any(x[0] == "call" and x[1] == "bytes::Bytes::len" and mir.same_value(x[2][0], buf) for x in leaves)
            has_chunk = any(x[0] == "path" and x[1].endswith("chunk_size") for x in leaves)
            has_avail = any(mir.calls_in(x, AVAILABLE) for x in leaves)
            upfront = [q for q, t in b.calls(TRY_REQUEST) if b.dominates(q, bb)]
            other = [s for x, s in zip(leaves, shown)
                     if not (x[0] == "call" and x[1] == "bytes::Bytes::len") and
                     not (x[0] == "path" and x[1].endswith("chunk_size")) and not mir.calls_in(x, AVAILABLE)]
            ok = has_len and has_chunk and (has_avail or upfront) and not other
            ck.expect(ok, site, f"split at min({', '.join(shown)})" + (" with the total requested up front" if upfront and not has_avail else ""),
                      f"chunk split size min({', '.join(shown)}) is not clamped by remaining length, chunk_size and "
                      f"available credit", b.loc(bb, i))
            if upfront and not has_avail:
                q = upfront[0]
                amt = mir.strip_casts(b.expr(b.term(q)["a"][1]))
                ok2 = any(c[1] == "bytes::Bytes::len" for c in mir.calls_in(amt))
                ck.expect(ok2, site + "#upfront", f"try_request({mir.show(amt)}) covers the whole message",
                          f"try_request({mir.show(amt)}) is not the message length", b.loc(q))
        else:
            # connect: the batch is ports_response after split_off(max_ports)
            so = [(q, t) for q, t in b.calls("std::vec::Vec::split_off")]
            if not so:
                ck.bad(site, "no split_off bounding the port batch", b.loc(bb, i))
                continue
            q, t = so[0]
            mp = b.expr(t["a"][1])
            # the bound as an arithmetic term over (chunk_size, available): 4 * max_ports must never exceed either
            def leaf(cs, av):
                def f(x):
                    if mir.last_field(x) == "chunk_size":
                        return cs
                    if x[0] == "call" and x[1] == AVAILABLE:
                        return av
                    if x[0] == "call" and x[1].endswith("size_of"):
                        return 4
                    return None
                return f
            cex = None
            try:
                for cs in range(4, 41):
                    for av in range(0, 41):
                        v = term_eval(mp, leaf(cs, av))
                        if 4 * v > min(cs, av) and cex is None:
                            cex = (cs, av, v)
                uses = {mir.last_field(x) for x in mir.walk(mp)} | {c[1] for c in mir.calls_in(mp)}
                ok = cex is None and "chunk_size" in uses and AVAILABLE in uses
            except Unevaluable:
                ok = mp[0] == "bin" and mp[1] == "Div" and const_value(mp[3]) == 4
                leaves = _min_leaves(mp[2]) if ok else []
                ok = ok and any(x[0] == "path" and x[1].endswith("chunk_size") for x in leaves) and \
                    any(mir.calls_in(x, AVAILABLE) for x in leaves)
            # the split is taken whenever len > max_ports
            ce = [switch_expr(b, s) for s, tb, v in controlling_edges(b, q)]
            guarded = any(e[0] == "bin" and e[1] == "Gt" and mir.calls_in(e[2], "std::vec::Vec::len") and mir.same_value(e[3], mp) for e in ce)
            ck.expect(ok and guarded, site, f"batch limited to {mir.show(mp)} ports",
                      f"port batch bound {mir.show(mp)} is not min(chunk_size, available)/4 or not applied when exceeded"
                      + (f": for chunk_size={cex[0]}, available={cex[1]} it allows {cex[2]} ports = {4 * cex[2]} bytes" if cex else ""),
                      b.loc(q))


def r02_3(ck, F):
    ck.rule("R02.3", "AssignedCredits::take subtracts only in a block control-dependent on self.port >= credits; the "
            "other branch diverges", "overdraw of locally assigned credit (u32 underflow in release builds)", floor=1)
    b = F.body(TAKE)
    stores = list(b.field_stores("port"))
    if not stores:
        raise mir.AnchorMissing("store to AssignedCredits.port in take")
    for bb, i, s in stores:
        ce = controlling_edges(b, bb)
        ok = False
        for sw, tb, v in ce:
            e = switch_expr(b, sw)
            if e[0] == "bin" and e[1] == "Ge" and "self.port" in mir.paths_in(e[2]) and switch_meaning(b, sw, v) is True:
                others = [x for x in mir.Body.term_succ(b.term(sw)) if x != tb]
                if all(not (b.reach([x]) & set(b.returns())) for x in others):
                    ok = True
        ck.expect(ok, "AssignedCredits::take#guard", "subtraction guarded by self.port >= credits, else diverges",
                  "AssignedCredits::take subtracts without the >= guard (or the failing branch returns)", b.loc(bb, i))


def r02_4(ck, F):
    ck.rule("R02.4", "the pool field ChannelCreditsInner.credits is written only by request (- min(credits, req)), "
            "try_request (- req, guarded by credits >= req), provide (checked_add) and AssignedCredits::drop (+ "
            "remainder); the struct's fields are private to credit.rs",
            "any additional or unguarded writer breaks credit conservation", floor=4)
    adt = F.adt("chmux::credit::ChannelCreditsInner")
    ck.expect(adt["vis"] not in ("pub",) and all(f["vis"] != "pub" for v in adt["variants"] for f in v["fields"]),
              "ChannelCreditsInner#private", "struct and fields are not public",
              "ChannelCreditsInner or its fields are public: writers outside credit.rs are possible", f"{adt['file']}:{adt['line']}")
    allowed = {
        "chmux::credit::CreditUser::request::{closure#0}": "request",
        "chmux::credit::CreditUser::try_request": "try_request",
        "chmux::credit::CreditProvider::provide": "provide",
        "<chmux::credit::AssignedCredits as std::ops::Drop>::drop": "drop",
    }
    seen = set()
    for b in F.by_dp.values():
        if b.crate != "remoc" or not b.file.endswith(CREDIT_RS):
            continue
        for bb, i, s in b.field_stores("credits"):
            who = allowed.get(mir.strip_generics(b.path))
            site = f"{mir.strip_generics(b.path)}#store"
            if who is None:
                ck.bad(site, f"unexpected writer of the credit pool: {b.path}", b.loc(bb, i))
                continue
            seen.add(who)
            val = b.expr(s["rv"]["o"]) if s["rv"]["r"] == "use" else b.expr(["c", s["p"]])
            sh = mir.show(val)
            ar = arith(val)
            if who == "request":
                ok = ar is not None and ar[0] == "Sub" and mir.calls_in(ar[2], "std::cmp::Ord::min") and \
                    any("credits" in mir.show(l) for l in _min_leaves(ar[2]))
            elif who == "try_request":
                ce = [e_ for e_, m_ in conds(b, bb) if m_ is True]
                ok = ar is not None and ar[0] == "Sub" and "req" in mir.paths_in(ar[2]) and \
                    any(e[0] == "bin" and e[1] == "Ge" and "req" in mir.paths_in(e[3]) for e in ce)
            elif who == "provide":
                ok = bool(mir.calls_in(val, "core::num::<impl u32>::checked_add")) or "checked_add" in sh
            else:
                adds = [c for c in mir.calls_in(val) if c[1].split("::")[-1] in ("saturating_add", "checked_add", "wrapping_add")]
                ok = (val[0] == "bin" and val[1] == "Add" or bool(adds)) and "self.port" in mir.paths_in(val)
            ck.expect(ok, site, f"{who}: stores {sh}", f"{who}: unexpected pool update {sh}", b.loc(bb, i))
    for who in allowed.values():
        if who not in seen:
            ck.bad(f"{who}#missing", f"expected pool writer `{who}` not found", None)


def r02_5(ck, F):
    ck.rule("R02.5", "UsedCredit is constructed only in ChannelCreditMonitor::use_credits under new_used <= limit, is "
            "not Clone/Copy/Default, is consumed by value only by ChannelCreditReturner::start_return which moves the "
            "same amount from `used` to `to_return`; to_return is zeroed when sent; start_return is called only from "
            "receiver.rs with the credit of the frame just taken from the port queue",
            "slow consumer + fast sender: credit returned early or twice lets more than receive_buffer bytes be in "
            "flight", floor=8)
    UC = "chmux::credit::UsedCredit"
    F.adt(UC)
    sites = [(b, bb, i) for b in F.by_dp.values() if b.crate == "remoc" for bb, i, rv in b.aggregates(UC)]
    for b, bb, i in sites:
        in_fn = mir.strip_generics(b.path) == "chmux::credit::ChannelCreditMonitor::use_credits"
        ce = [e_ for e_, m_ in conds(b, bb) if m_ is True]
        guarded = any(e[0] == "bin" and e[1] == "Le" and "limit" in mir.show(e[3]) for e in ce)
        ck.expect(in_fn and guarded, f"UsedCredit#construct@{mir.strip_generics(b.path)}",
                  "constructed in use_credits under new_used <= limit",
                  f"UsedCredit constructed in {b.path} (guarded by limit: {guarded})", b.loc(bb, i))
    ck.expect(len(sites) >= 1, "UsedCredit#construct-exists", "construction site found", "no construction site", None)
    for tr in ("std::clone::Clone", "std::marker::Copy", "std::default::Default"):
        ck.expect(not F.has_impl(UC, tr), f"UsedCredit#no-{tr.split('::')[-1]}", f"no {tr} impl",
                  f"UsedCredit implements {tr}: receive credit can be duplicated / forged", None)
    consumers = [f["path"] for f in F.crates["remoc.lib"]["fns"] if any(t == UC for t in f["inputs"])]
    ck.expect([mir.strip_generics(c) for c in consumers] == ["chmux::credit::ChannelCreditReturner::start_return"],
              "UsedCredit#consumers", "only start_return takes a UsedCredit by value",
              f"functions taking UsedCredit by value: {consumers}", None)
    b = F.body("chmux::credit::ChannelCreditReturner::start_return")
    used = [(bb, i, b.expr(s["rv"]["o"])) for bb, i, s in b.field_stores("used") if s["rv"]["r"] == "use"]
    tor = [(bb, i, b.expr(s["rv"]["o"])) for bb, i, s in b.field_stores("to_return") if s["rv"]["r"] == "use"]
    ok_used = any(arith(e) and arith(e)[0] == "Sub" and "credit.0" in mir.paths_in(arith(e)[2]) for _, _, e in used)
    ok_tor = any(arith(e) and arith(e)[0] == "Add" and "credit.0" in mir.paths_in(arith(e)[2]) for _, _, e in tor)
    ck.expect(ok_used and ok_tor, "start_return#move", "used -= credit.0 and to_return += credit.0",
              "start_return does not move exactly credit.0 from used to to_return", b.loc(0))
    zero = [(bb, i) for bb, i, e in tor if const_value(e) == 0]
    for bb, i, rv in b.aggregates(PORT_EVT, "ReturnCredits"):
        amt = b.expr(rv["ops"][rv["fields"].index("credits")])
        taken = amt[0] == "call" and amt[1] in ("std::mem::take", "std::mem::replace") and amt[2] and \
            mir.last_field(amt[2][0]) == "to_return" and (amt[1].endswith("take") or const_value(amt[2][1]) == 0)
        ok = taken or (amt == ("path", "self.to_return") and any(b.find_path([bb], [z]) and b.dominates(bb, z) for z, _ in zero))
        ck.expect(ok, "start_return#send-and-zero", "ReturnCredits carries to_return, which is then zeroed",
                  f"ReturnCredits.credits = {mir.show(amt)} / to_return not reset after sending", b.loc(bb, i))
    # call sites of start_return
    n = 0
    for cb in F.by_dp.values():
        if cb.crate != "remoc":
            continue
        for bb, t in cb.calls("chmux::credit::ChannelCreditReturner::start_return"):
            n += 1
            arg = cb.expr(t["a"][1])
            sh = mir.show(arg)
            from_recv = any(c[1] in ("tokio::sync::mpsc::UnboundedReceiver::recv",) for x in mir.walk(arg)
                            if isinstance(x, tuple) and x and x[0] == "await" for c in mir.calls_in(x))
            in_receiver = cb.file.endswith("chmux/receiver.rs")
            ck.expect(in_receiver and from_recv and sh.endswith(".credit"),
                      f"start_return#call@{mir.strip_generics(cb.path)}#{n}",
                      f"argument {sh[-60:]} is the credit of the frame received from the port queue",
                      f"start_return called with {sh} in {cb.path}", cb.loc(bb))
    ck.expect(n >= 4, "start_return#call-count", f"{n} call sites", f"only {n} start_return call sites (expected 4)", None)


def r02_6(ck, F):
    ck.rule("R02.6", "handle_received_msg accounts every Data / PortData frame with use_credits(len) (len.max(1) for "
            "data, 4 per port) in a block control-dependent on size <= local_cfg.chunk_size, and every message queued "
            "to a port carries that UsedCredit",
            "a peer sending oversized or unaccounted frames makes the receiver buffer beyond its advertised limit",
            floor=4)
    b = F.main_body(HANDLE_RECEIVED)
    uses = sorted(b.calls("chmux::credit::ChannelCreditMonitor::use_credits"))
    ck.expect(len(uses) == 2, "handle_received_msg#use_credits-count", "two use_credits call sites (Data, PortData)",
              f"{len(uses)} use_credits call sites", b.loc(uses[0][0]) if uses else b.loc(0))
    for k, (bb, t) in enumerate(uses):
        amt = b.expr(t["a"][1])
        sh = mir.show(amt)
        ce = [e_ for e_, m_ in conds(b, bb) if m_ is True]
        guarded = any(e[0] == "bin" and e[1] == "Le" and any(p.endswith("local_cfg.chunk_size") for p in mir.paths_in(e[3])) for e in ce)
        is_data = any(c[1] == "bytes::Bytes::len" for c in mir.calls_in(amt))
        is_ports = any(c[1] == "std::vec::Vec::len" for c in mir.calls_in(amt)) or "checked_mul" in sh
        shape = (is_data and any(c[1] == "std::cmp::Ord::max" for c in mir.calls_in(amt))) or is_ports
        ck.expect(guarded and shape, f"handle_received_msg#use_credits{k}",
                  f"use_credits({sh[:80]}) under size <= local_cfg.chunk_size",
                  f"use_credits({sh[:120]}) not derived from the frame length or not guarded by the chunk size check "
                  f"(guarded={guarded})", b.loc(bb))
    n = 0
    for bb, i, rv in b.aggregates("chmux::receiver::ReceivedData"):
        n += 1
        cr = b.expr(rv["ops"][rv["fields"].index("credit")])
        ck.expect(bool(mir.calls_in(cr, "chmux::credit::ChannelCreditMonitor::use_credits")),
                  "handle_received_msg#ReceivedData.credit", "queued data carries the UsedCredit of this frame",
                  f"ReceivedData.credit = {mir.show(cr)}", b.loc(bb, i))
    for bb, i, rv in b.aggregates("chmux::receiver::ReceivedPortRequests"):
        n += 1
        cr = b.expr(rv["ops"][rv["fields"].index("credit")])
        ck.expect(bool(mir.calls_in(cr, "chmux::credit::ChannelCreditMonitor::use_credits")),
                  "handle_received_msg#ReceivedPortRequests.credit", "queued port requests carry the UsedCredit",
                  f"ReceivedPortRequests.credit = {mir.show(cr)}", b.loc(bb, i))
    ck.expect(n == 2, "handle_received_msg#queued", "two queued message kinds carry credit", f"{n} found", b.loc(0))


def r02_7(ck, F):
    ck.rule("R02.7", "create_port wires credit_send_pair <- remote_cfg.port_receive_buffer, credit_monitor_pair <- "
            "local_cfg.receive_buffer, Sender chunk size <- remote_cfg.chunk_size; ExchangedCfg::from(&Cfg) maps "
            "receive_buffer -> port_receive_buffer and chunk_size -> chunk_size",
            "asymmetric configurations: the sender would use its own limits instead of the peer's", floor=5)
    b = F.main_body("chmux::mux::ChMux::create_port")
    want = [
        ("chmux::credit::credit_send_pair", 0, "self.remote_cfg.port_receive_buffer"),
        ("chmux::credit::credit_monitor_pair", 0, "self.local_cfg.receive_buffer"),
        ("chmux::sender::Sender::new", 2, "self.remote_cfg.chunk_size"),
    ]
    for fn, idx, path in want:
        cs = list(b.calls(fn))
        if not cs:
            raise mir.AnchorMissing(f"call to {fn} in create_port")
        bb, t = cs[0]
        e = mir.strip_casts(b.expr(t["a"][idx]))
        ck.expect(e == ("path", path), f"create_port#{fn.split('::')[-1]}[{idx}]", f"argument is {path}",
                  f"argument is {mir.show(e)}, expected {path}", b.loc(bb))
    fb = F.body("<chmux::msg::ExchangedCfg as std::convert::From<&chmux::cfg::Cfg>>::from")
    aggs = list(fb.aggregates("chmux::msg::ExchangedCfg"))
    if not aggs:
        raise mir.AnchorMissing("ExchangedCfg aggregate in From<&Cfg>")
    bb, i, rv = aggs[0]
    for fld, src in (("chunk_size", "cfg.chunk_size"), ("port_receive_buffer", "cfg.receive_buffer")):
        e = mir.strip_casts(fb.expr(rv["ops"][rv["fields"].index(fld)]))
        ck.expect(e == ("path", src), f"ExchangedCfg::from#{fld}", f"{fld} <- {src}",
                  f"{fld} <- {mir.show(e)}, expected {src}", fb.loc(bb, i))


def run(ck, F):
    for r in (r02_1, r02_1b, r02_2, r02_3, r02_4, r02_5, r02_6, r02_7):
        ck.run_rule(r)
