"""Both-ways self-test of the checker (not a registered property command).

./check selftest [name-filter]

For every entry of mutants/index.json: take a scratch worktree of /repo (outside /repo and /verif),
apply the patch, run the owning check with REMOC_SRC pointing at the scratch tree and compare with
the expectation: `expect: "violation"` entries must exit 1 and print a replay path containing the
expected key; `expect: "silent"` entries (benign refactorings, seeded changes a rule must NOT
fire on) must exit 0.  The scratch tree is reset between entries and removed at the end.
"""
import json
import os
import subprocess
import sys
import time

VERIF = os.path.dirname(os.path.dirname(os.path.abspath(__file__)))
SCRATCH = "/tmp/verif-selftest" + ("-" + os.environ["VERIF_SLOT"] if os.environ.get("VERIF_SLOT") else "")


def sh(cmd, **kw):
    return subprocess.run(cmd, shell=True, text=True, stdout=subprocess.PIPE, stderr=subprocess.STDOUT, **kw)


def main(argv):
    flt = argv[0] if argv else None
    idx = json.load(open(os.path.join(VERIF, "mutants", "index.json")))
    sh(f"git -C /repo worktree remove --force {SCRATCH}")
    r = sh(f"git -C /repo worktree add --detach {SCRATCH} HEAD")
    if r.returncode != 0:
        print(r.stdout)
        return 2
    failed = 0
    results = []
    done = set()
    if os.environ.get("VERIF_DONE") and os.path.exists(os.environ["VERIF_DONE"]):
        done = {l.strip() for l in open(os.environ["VERIF_DONE"])}     # "<patch> [<prop>]" lines of an interrupted run
    shard = os.environ.get("VERIF_SHARD")  # "i/n": run every n-th entry starting at i (parallel self-test)
    try:
        for pos, m in enumerate(idx):
            if shard and pos % int(shard.split("/")[1]) != int(shard.split("/")[0]):
                continue
            if flt and not any(f in m["patch"] or f in m.get("property", "") for f in flt.split(",")):
                continue
            sh(f"git -C {SCRATCH} checkout -q -- . && git -C {SCRATCH} clean -fdq")
            src = m["patch"]
            path = src if src.startswith("/") else os.path.join(VERIF, src)
            a = sh(f"git -C {SCRATCH} apply {path}")
            if a.returncode != 0:
                print(f"FAIL {m['patch']}: patch does not apply: {a.stdout[-300:]}")
                failed += 1
                continue
            for prop in m["property"].split(","):
                if f"{m['patch']} [{prop}]" in done:
                    continue
                t0 = time.time()
                env = dict(os.environ, REMOC_SRC=SCRATCH, VERIF_EVIDENCE_DIR=SCRATCH + "-evidence")
                r = subprocess.run([os.path.join(VERIF, "check"), prop, "quick"], env=env, text=True,
                                   stdout=subprocess.PIPE, stderr=subprocess.STDOUT)
                viol = [l for l in r.stdout.splitlines() if l.startswith("VIOLATION")]
                if m["expect"] not in ("violation", "silent"):
                    raise SystemExit(f"mutants/index.json: unknown expect value {m['expect']!r} for {m['patch']}")
                if m["expect"] == "violation":
                    keys = m.get("keys", [])
                    ok = r.returncode == 1 and all(any(k in v for v in viol) for k in keys) and viol
                    extra = [v for v in viol if not any(k in v for k in keys)] if m.get("exact") else []
                    ok = ok and not extra
                else:
                    ok = r.returncode == 0 and not viol
                print(f"{'ok  ' if ok else 'FAIL'} {m['patch']} [{prop}] expect={m['expect']} rc={r.returncode} "
                      f"violations={len(viol)} ({time.time()-t0:.0f}s)")
                import re as _re
                caught = sorted({_re.sub(r".*/replay/(.*)\.json", r"\1", v) for v in viol})
                if caught:
                    print("     caught by: " + ", ".join(caught[:8]))
                results.append({"patch": m["patch"], "property": prop, "expect": m["expect"], "ok": ok, "caught_by": caught})
                if not ok:
                    failed += 1
                    print("   " + "\n   ".join(r.stdout.splitlines()[-12:]))
    finally:
        sh(f"git -C /repo worktree remove --force {SCRATCH}")
        sh(f"rm -rf {SCRATCH}-evidence")
    rp = os.path.join(VERIF, "mutants", "last_results.json")
    if shard:
        rp = os.path.join(VERIF, "mutants", f".last_results.{shard.replace('/', '_')}.json")
    old = {}
    if os.path.exists(rp):
        old = {(r["patch"], r["property"]): r for r in json.load(open(rp))}
    for r in results:
        old[(r["patch"], r["property"])] = r
    json.dump(sorted(old.values(), key=lambda r: (r["patch"], r["property"])), open(rp, "w"), indent=1)
    print(f"selftest: {failed} failure(s)")
    return 1 if failed else 0
