// remoc-facts: rustc_private fact extractor.
//
// Used as RUSTC_WRAPPER: argv = [driver, <rustc path>, rustc args...].  For crates named in
// $VERIF_CRATES (comma separated crate names) it dumps, from `after_expansion`, the built MIR
// (`mir_built`: before borrowck, drop elaboration and the coroutine state transform, so
// `Yield` terminators = await points are explicit) of every body owner plus crate-level
// type tables as JSON into $VERIF_FACTS_DIR.  All other crates are compiled unchanged.
#![feature(rustc_private)]
#![allow(clippy::all)]

extern crate rustc_abi;
extern crate rustc_data_structures;
extern crate rustc_driver;
extern crate rustc_hir;
extern crate rustc_interface;
extern crate rustc_middle;
extern crate rustc_session;
extern crate rustc_span;

mod json;

use json::J;
use rustc_hir::def::DefKind;
use rustc_hir::def_id::{DefId, LocalDefId};
use rustc_middle::mir::{
    self, AggregateKind, BasicBlock, Body, Const, Operand, Place, PlaceRef, ProjectionElem, Rvalue,
    StatementKind, TerminatorKind, UnwindAction,
};
use rustc_middle::ty::print::with_no_trimmed_paths;
use rustc_middle::ty::{self, GenericArgsRef, Instance, Ty, TyCtxt, TypingEnv};
use rustc_span::Span;
use std::collections::BTreeMap;

struct Cb {
    out: String,
}

thread_local! {
    // Clones of every `mir_built` result, taken inside the (overridden) provider before any later
    // query can steal it.  Lifetimes are erased; the clones are only read while the TyCtxt lives.
    static BUILT: std::cell::RefCell<Vec<(LocalDefId, Body<'static>)>> = std::cell::RefCell::new(Vec::new());
}
static ORIG_MIR_BUILT: std::sync::OnceLock<
    for<'tcx> fn(TyCtxt<'tcx>, LocalDefId) -> &'tcx rustc_data_structures::steal::Steal<Body<'tcx>>,
> = std::sync::OnceLock::new();

fn my_mir_built<'tcx>(
    tcx: TyCtxt<'tcx>,
    def: LocalDefId,
) -> &'tcx rustc_data_structures::steal::Steal<Body<'tcx>> {
    let r = (ORIG_MIR_BUILT.get().unwrap())(tcx, def);
    let b: Body<'tcx> = r.borrow().clone();
    let b: Body<'static> = unsafe { std::mem::transmute(b) };
    BUILT.with(|v| v.borrow_mut().push((def, b)));
    r
}

impl rustc_driver::Callbacks for Cb {
    fn config(&mut self, config: &mut rustc_interface::Config) {
        config.override_queries = Some(|_sess, providers| {
            let _ = ORIG_MIR_BUILT.set(providers.queries.mir_built);
            providers.queries.mir_built = my_mir_built;
        });
    }
    fn after_expansion<'tcx>(
        &mut self,
        _c: &rustc_interface::interface::Compiler,
        tcx: TyCtxt<'tcx>,
    ) -> rustc_driver::Compilation {
        let j = with_no_trimmed_paths!(dump_crate(tcx));
        let mut s = String::with_capacity(1 << 24);
        j.write(&mut s);
        let tmp = format!("{}.tmp.{}", self.out, std::process::id());
        std::fs::write(&tmp, s).expect("write facts");
        std::fs::rename(&tmp, &self.out).expect("rename facts");
        rustc_driver::Compilation::Continue
    }
}

struct Plain;
impl rustc_driver::Callbacks for Plain {}

fn main() {
    let mut args: Vec<String> = std::env::args().collect();
    // wrapper mode: drop the rustc path
    if args.len() > 1 && (args[1].ends_with("rustc") || args[1].contains("/rustc")) {
        args.remove(1);
    }
    let crates = std::env::var("VERIF_CRATES").unwrap_or_default();
    let mut crate_name = String::new();
    let mut is_test = false;
    let mut it = args.iter();
    while let Some(a) = it.next() {
        if a == "--crate-name" {
            if let Some(n) = it.next() {
                crate_name = n.clone();
            }
        } else if a == "--test" {
            is_test = true;
        }
    }
    let wanted = !crate_name.is_empty() && crates.split(',').any(|c| c == crate_name);
    // `cargo` probes with `rustc - --crate-name ___ --print ...`; those never match.
    if wanted {
        let dir = std::env::var("VERIF_FACTS_DIR").expect("VERIF_FACTS_DIR");
        let out = format!("{}/{}.{}.json", dir, crate_name, if is_test { "test" } else { "lib" });
        let mut cb = Cb { out };
        rustc_driver::run_compiler(&args, &mut cb);
    } else {
        rustc_driver::run_compiler(&args, &mut Plain);
    }
}

// ---------------------------------------------------------------------------------------------

fn span_line(tcx: TyCtxt<'_>, sp: Span) -> (String, u32, bool) {
    let exp = sp.from_expansion();
    let sp = if exp { sp.source_callsite() } else { sp };
    let sm = tcx.sess.source_map();
    let lo = sm.lookup_char_pos(sp.lo());
    let file = match &lo.file.name {
        rustc_span::FileName::Real(r) => match r.local_path() {
            Some(p) => p.display().to_string(),
            None => format!("{:?}", lo.file.name),
        },
        other => format!("{:?}", other),
    };
    (file, lo.line as u32, exp)
}

fn dpath(tcx: TyCtxt<'_>, d: DefId) -> String {
    tcx.def_path_str(d)
}

fn vis_str(tcx: TyCtxt<'_>, d: DefId) -> &'static str {
    match tcx.def_kind(d) {
        DefKind::Fn
        | DefKind::AssocFn
        | DefKind::Struct
        | DefKind::Enum
        | DefKind::Union
        | DefKind::Field
        | DefKind::Const { .. }
        | DefKind::AssocConst { .. }
        | DefKind::Static { .. }
        | DefKind::Trait
        | DefKind::TyAlias
        | DefKind::Mod
        | DefKind::Variant
        | DefKind::Ctor(..) => {}
        _ => return "n/a",
    }
    match tcx.visibility(d) {
        ty::Visibility::Public => "pub",
        ty::Visibility::Restricted(m) => {
            if m.is_crate_root() {
                "crate"
            } else {
                "restricted"
            }
        }
    }
}

fn dump_crate<'tcx>(tcx: TyCtxt<'tcx>) -> J {
    let mut root = BTreeMap::new();
    root.insert("crate".to_string(), J::s(tcx.crate_name(rustc_hir::def_id::LOCAL_CRATE).as_str()));

    // ---- bodies
    // Force MIR building of every body owner; the overridden provider keeps a clone of each.
    let mut want: Vec<LocalDefId> = Vec::new();
    for def in tcx.hir_body_owners() {
        let kind = tcx.def_kind(def);
        match kind {
            DefKind::Fn | DefKind::AssocFn | DefKind::Closure | DefKind::SyntheticCoroutineBody => {}
            _ => continue,
        }
        let _ = tcx.mir_built(def);
        want.push(def);
    }
    let taken: Vec<(LocalDefId, Body<'static>)> = BUILT.with(|v| std::mem::take(&mut *v.borrow_mut()));
    let mut by_def: BTreeMap<u32, Body<'tcx>> = BTreeMap::new();
    for (d, b) in taken {
        let b: Body<'tcx> = unsafe { std::mem::transmute(b) };
        by_def.insert(d.local_def_index.as_u32(), b);
    }
    let mut owned: Vec<(LocalDefId, &Body<'tcx>)> = Vec::new();
    for d in want {
        match by_def.get(&d.local_def_index.as_u32()) {
            Some(b) => owned.push((d, b)),
            None => panic!("remoc-facts: no built MIR captured for {:?}", d),
        }
    }
    let stolen: Vec<J> = Vec::new();
    let mut bodies = Vec::new();
    for (def, b) in &owned {
        bodies.push(dump_body(tcx, *def, b));
    }
    root.insert("bodies".into(), J::A(bodies));
    root.insert("ctfe_bodies".into(), J::A(stolen));

    // ---- ADTs, impls, fns, consts
    let mut adts = Vec::new();
    let mut impls = Vec::new();
    let mut fns = Vec::new();
    let mut consts = Vec::new();
    let mut traits = Vec::new();
    for id in tcx.hir_crate_items(()).definitions() {
        let did = id.to_def_id();
        match tcx.def_kind(did) {
            DefKind::Struct | DefKind::Enum | DefKind::Union => adts.push(dump_adt(tcx, did)),
            DefKind::Impl { .. } => impls.push(dump_impl(tcx, did)),
            DefKind::Fn | DefKind::AssocFn => fns.push(dump_fn(tcx, id)),
            DefKind::Const { .. } | DefKind::AssocConst { .. } => {
                if let Some(c) = dump_const(tcx, did) {
                    consts.push(c)
                }
            }
            DefKind::Trait => {
                let mut m = BTreeMap::new();
                m.insert("path".into(), J::s(&dpath(tcx, did)));
                m.insert("vis".into(), J::s(vis_str(tcx, did)));
                let items: Vec<J> = tcx
                    .associated_items(did)
                    .in_definition_order()
                    .filter_map(|i| i.opt_name().map(|n| J::s(n.as_str())))
                    .collect();
                m.insert("items".into(), J::A(items));
                traits.push(J::O(m));
            }
            _ => {}
        }
    }
    root.insert("adts".into(), J::A(adts));
    root.insert("impls".into(), J::A(impls));
    root.insert("fns".into(), J::A(fns));
    root.insert("consts".into(), J::A(consts));
    root.insert("traits".into(), J::A(traits));

    // crate-level attributes (debug form; used to see `forbid(unsafe_code)`), unsafe blocks
    let attrs: Vec<J> = tcx
        .hir_attrs(rustc_hir::CRATE_HIR_ID)
        .iter()
        .map(|a| {
            let mut s = format!("{:?}", a);
            s.truncate(600);
            J::S(s)
        })
        .collect();
    root.insert("crate_attrs".into(), J::A(attrs));
    let mut uv = UnsafeVisitor { tcx, found: Vec::new() };
    tcx.hir_visit_all_item_likes_in_crate(&mut uv);
    root.insert("unsafe_blocks".into(), J::A(uv.found));
    J::O(root)
}

fn dump_const<'tcx>(tcx: TyCtxt<'tcx>, did: DefId) -> Option<J> {
    let mut m = BTreeMap::new();
    m.insert("path".into(), J::s(&dpath(tcx, did)));
    let generics = tcx.generics_of(did);
    if generics.count() != 0 || generics.parent_count != 0 {
        return None;
    }
    let ty = tcx.type_of(did).instantiate_identity().skip_norm_wip();
    m.insert("ty".into(), J::s(&ty.to_string()));
    if let Ok(v) = tcx.const_eval_poly(did) {
        if let Some(s) = v.try_to_scalar_int() {
            let sz = s.size();
            m.insert("value".into(), J::s(&s.to_bits(sz).to_string()));
        } else {
            // byte-string / slice constants: try to read bytes
            if let mir::ConstValue::Slice { .. } = v {
                if let Some(b) = v.try_get_slice_bytes_for_diagnostics(tcx) {
                    m.insert("bytes".into(), J::A(b.iter().map(|x| J::I(*x as i64)).collect()));
                }
            } else if let (mir::ConstValue::Scalar(rustc_middle::mir::interpret::Scalar::Ptr(ptr, _)), ty::Ref(_, inner, _)) =
                (v, ty.kind())
            {
                // `&[u8; N]` constants such as MAGIC
                if let ty::Array(elem, len) = inner.kind() {
                    if *elem == tcx.types.u8 {
                        if let Some(n) = len.try_to_target_usize(tcx) {
                            let (prov, off) = ptr.into_raw_parts();
                            if let rustc_middle::mir::interpret::GlobalAlloc::Memory(alloc) =
                                tcx.global_alloc(prov.alloc_id())
                            {
                                let a = alloc.inner();
                                let start = off.bytes_usize();
                                let bytes =
                                    a.inspect_with_uninit_and_ptr_outside_interpreter(start..start + n as usize);
                                m.insert("bytes".into(), J::A(bytes.iter().map(|x| J::I(*x as i64)).collect()));
                            }
                        }
                    }
                }
            } else if let mir::ConstValue::Indirect { alloc_id, offset } = v {
                // arrays like [u8; 6]
                if let ty::Array(elem, _) = ty.kind() {
                    if *elem == tcx.types.u8 {
                        let alloc = tcx.global_alloc(alloc_id).unwrap_memory();
                        let a = alloc.inner();
                        let bytes = a.inspect_with_uninit_and_ptr_outside_interpreter(
                            offset.bytes_usize()..a.len(),
                        );
                        m.insert("bytes".into(), J::A(bytes.iter().map(|x| J::I(*x as i64)).collect()));
                    }
                }
            }
        }
    }
    Some(J::O(m))
}

fn dump_adt<'tcx>(tcx: TyCtxt<'tcx>, did: DefId) -> J {
    let adt = tcx.adt_def(did);
    let mut m = BTreeMap::new();
    m.insert("path".into(), J::s(&dpath(tcx, did)));
    m.insert("vis".into(), J::s(vis_str(tcx, did)));
    m.insert(
        "kind".into(),
        J::s(if adt.is_enum() {
            "enum"
        } else if adt.is_union() {
            "union"
        } else {
            "struct"
        }),
    );
    let (f, l, _) = span_line(tcx, tcx.def_span(did));
    m.insert("file".into(), J::s(&f));
    m.insert("line".into(), J::I(l as i64));
    let gens: Vec<J> = tcx.generics_of(did).own_params.iter().map(|p| J::s(p.name.as_str())).collect();
    m.insert("generics".into(), J::A(gens));
    let mut vars = Vec::new();
    for v in adt.variants() {
        let mut vm = BTreeMap::new();
        vm.insert("name".into(), J::s(v.name.as_str()));
        let mut fs = Vec::new();
        for f in &v.fields {
            let mut fm = BTreeMap::new();
            fm.insert("name".into(), J::s(f.name.as_str()));
            let t = tcx.type_of(f.did).instantiate_identity().skip_norm_wip();
            fm.insert("ty".into(), J::s(&t.to_string()));
            fm.insert("vis".into(), J::s(vis_str(tcx, f.did)));
            fs.push(J::O(fm));
        }
        vm.insert("fields".into(), J::A(fs));
        vars.push(J::O(vm));
    }
    m.insert("variants".into(), J::A(vars));
    J::O(m)
}

fn dump_impl<'tcx>(tcx: TyCtxt<'tcx>, did: DefId) -> J {
    let mut m = BTreeMap::new();
    let self_ty = tcx.type_of(did).instantiate_identity().skip_norm_wip();
    m.insert("self_ty".into(), J::s(&self_ty.to_string()));
    if let ty::Adt(a, _) = self_ty.kind() {
        m.insert("self_adt".into(), J::s(&dpath(tcx, a.did())));
    }
    if let Some(tr) = tcx.impl_opt_trait_ref(did) {
        let tr = tr.instantiate_identity().skip_norm_wip();
        m.insert("trait".into(), J::s(&dpath(tcx, tr.def_id)));
        m.insert("trait_ref".into(), J::s(&tr.to_string()));
        m.insert(
            "negative".into(),
            J::B(matches!(tcx.impl_polarity(did), ty::ImplPolarity::Negative)),
        );
    }
    let (f, l, exp) = span_line(tcx, tcx.def_span(did));
    m.insert("file".into(), J::s(&f));
    m.insert("line".into(), J::I(l as i64));
    m.insert("derived".into(), J::B(exp || tcx.is_automatically_derived(did)));
    let items: Vec<J> =
        tcx.associated_items(did).in_definition_order().filter_map(|i| i.opt_name().map(|n| J::s(n.as_str()))).collect();
    m.insert("items".into(), J::A(items));
    J::O(m)
}

fn dump_fn<'tcx>(tcx: TyCtxt<'tcx>, id: LocalDefId) -> J {
    let did = id.to_def_id();
    let mut m = BTreeMap::new();
    m.insert("path".into(), J::s(&dpath(tcx, did)));
    m.insert("vis".into(), J::s(vis_str(tcx, did)));
    let sig = tcx.fn_sig(did).instantiate_identity().skip_norm_wip().skip_binder();
    m.insert("inputs".into(), J::A(sig.inputs().iter().map(|t| J::s(&t.to_string())).collect()));
    m.insert("output".into(), J::s(&sig.output().to_string()));
    m.insert("async".into(), J::B(tcx.asyncness(did).is_async()));
    let (f, l, exp) = span_line(tcx, tcx.def_span(did));
    m.insert("file".into(), J::s(&f));
    m.insert("line".into(), J::I(l as i64));
    m.insert("x".into(), J::B(exp));
    if let Some(ai) = tcx.opt_associated_item(did) {
        m.insert("has_self".into(), J::B(ai.is_method()));
        let parent = tcx.parent(did);
        match tcx.def_kind(parent) {
            DefKind::Impl { .. } => {
                let st = tcx.type_of(parent).instantiate_identity().skip_norm_wip();
                m.insert("impl_self".into(), J::s(&st.to_string()));
                if let ty::Adt(a, _) = st.kind() {
                    m.insert("impl_adt".into(), J::s(&dpath(tcx, a.did())));
                }
                if let Some(tr) = tcx.impl_opt_trait_ref(parent) {
                    m.insert("impl_trait".into(), J::s(&dpath(tcx, tr.skip_binder().def_id)));
                }
            }
            DefKind::Trait => {
                m.insert("in_trait".into(), J::s(&dpath(tcx, parent)));
            }
            _ => {}
        }
    }
    m.insert("name".into(), J::s(tcx.item_name(did).as_str()));
    J::O(m)
}

// ---------------------------------------------------------------------------------------------

struct Cx<'a, 'tcx> {
    tcx: TyCtxt<'tcx>,
    body: &'a Body<'tcx>,
    def: LocalDefId,
    env: TypingEnv<'tcx>,
}

fn dump_body<'tcx>(tcx: TyCtxt<'tcx>, def: LocalDefId, body: &Body<'tcx>) -> J {
    let did = def.to_def_id();
    let cx = Cx { tcx, body, def, env: TypingEnv::post_analysis(tcx, did) };
    let mut m = BTreeMap::new();
    m.insert("path".into(), J::s(&dpath(tcx, did)));
    m.insert("dp".into(), J::s(&tcx.def_path(did).to_string_no_crate_verbose()));
    let kind = match tcx.def_kind(did) {
        DefKind::Closure => {
            if tcx.is_coroutine(did) {
                "coroutine"
            } else {
                "closure"
            }
        }
        DefKind::Fn => "fn",
        DefKind::AssocFn => "assoc_fn",
        _ => "other",
    };
    m.insert("kind".into(), J::s(kind));
    if kind == "coroutine" {
        m.insert("coroutine_kind".into(), J::s(&format!("{:?}", tcx.coroutine_kind(did))));
    }
    if matches!(tcx.def_kind(did), DefKind::Closure) {
        let p = tcx.parent(did);
        m.insert("parent".into(), J::s(&dpath(tcx, p)));
        m.insert("parent_dp".into(), J::s(&tcx.def_path(p).to_string_no_crate_verbose()));
        // captured variables, in upvar order
        let ups: Vec<J> = tcx
            .closure_captures(def)
            .iter()
            .map(|c| {
                let mut um = BTreeMap::new();
                um.insert("name".into(), J::s(&c.to_string(tcx)));
                um.insert("by_ref".into(), J::B(c.is_by_ref()));
                J::O(um)
            })
            .collect();
        m.insert("upvars".into(), J::A(ups));
    }
    let (f, l, exp) = span_line(tcx, body.span);
    m.insert("file".into(), J::s(&f));
    m.insert("line".into(), J::I(l as i64));
    m.insert("x".into(), J::B(exp));
    m.insert("arg_count".into(), J::I(body.arg_count as i64));

    // locals
    let mut names: BTreeMap<usize, String> = BTreeMap::new();
    let mut dbg = Vec::new();
    for vdi in &body.var_debug_info {
        if let mir::VarDebugInfoContents::Place(p) = &vdi.value {
            if p.projection.is_empty() {
                names.entry(p.local.as_usize()).or_insert_with(|| vdi.name.to_string());
            }
            let mut dm = BTreeMap::new();
            dm.insert("name".into(), J::s(vdi.name.as_str()));
            dm.insert("place".into(), cx.place(*p));
            dbg.push(J::O(dm));
        }
    }
    m.insert("debug".into(), J::A(dbg));
    let mut locals = Vec::new();
    for (i, d) in body.local_decls.iter_enumerated() {
        let mut lm = BTreeMap::new();
        lm.insert("ty".into(), J::s(&d.ty.to_string()));
        if let Some(n) = names.get(&i.as_usize()) {
            lm.insert("name".into(), J::s(n));
        }
        if d.is_user_variable() {
            lm.insert("user".into(), J::B(true));
        }
        locals.push(J::O(lm));
    }
    m.insert("locals".into(), J::A(locals));

    // blocks
    let mut blocks = Vec::new();
    for (_bb, data) in body.basic_blocks.iter_enumerated() {
        let mut bm = BTreeMap::new();
        if data.is_cleanup {
            bm.insert("cleanup".into(), J::B(true));
        }
        let mut stmts = Vec::new();
        for st in &data.statements {
            if let Some(s) = cx.stmt(st) {
                stmts.push(s);
            }
        }
        bm.insert("s".into(), J::A(stmts));
        bm.insert("t".into(), cx.term(data.terminator()));
        blocks.push(J::O(bm));
    }
    m.insert("blocks".into(), J::A(blocks));
    J::O(m)
}

impl<'a, 'tcx> Cx<'a, 'tcx> {
    fn line(&self, sp: Span, m: &mut BTreeMap<String, J>) {
        let (_f, l, exp) = span_line(self.tcx, sp);
        m.insert("l".into(), J::I(l as i64));
        if exp {
            m.insert("x".into(), J::B(true));
            // name of the outermost (user-written) macro invocation this code comes from
            let mut cur = sp;
            let mut name = String::new();
            for _ in 0..32 {
                if !cur.from_expansion() {
                    break;
                }
                let data = cur.ctxt().outer_expn_data();
                name = match data.macro_def_id {
                    Some(d) => self.tcx.def_path_str(d),
                    None => data.kind.descr().to_string(),
                };
                cur = data.call_site;
            }
            m.insert("xm".into(), J::s(&name));
        }
    }

    fn place(&self, p: Place<'tcx>) -> J {
        let mut v = vec![J::I(p.local.as_usize() as i64)];
        for (base, elem) in p.iter_projections() {
            v.push(self.proj(base, elem));
        }
        J::A(v)
    }

    fn proj(&self, base: PlaceRef<'tcx>, elem: mir::PlaceElem<'tcx>) -> J {
        match elem {
            ProjectionElem::Deref => J::s("*"),
            ProjectionElem::Field(f, _) => {
                let bt = base.ty(self.body, self.tcx);
                let name = match bt.ty.kind() {
                    ty::Adt(adt, _) => {
                        let vi = bt.variant_index.unwrap_or(rustc_abi::FIRST_VARIANT);
                        adt.variant(vi).fields.get(f).map(|fd| fd.name.to_string())
                    }
                    _ => None,
                };
                match name {
                    Some(n) => J::s(&format!(".{}:{}", f.as_usize(), n)),
                    None => J::s(&format!(".{}", f.as_usize())),
                }
            }
            ProjectionElem::Index(l) => J::s(&format!("[_{}]", l.as_usize())),
            ProjectionElem::ConstantIndex { offset, from_end, .. } => {
                J::s(&format!("[{}{}]", if from_end { "-" } else { "" }, offset))
            }
            ProjectionElem::Subslice { .. } => J::s("[..]"),
            ProjectionElem::Downcast(name, vi) => {
                let n = match name {
                    Some(n) => n.to_string(),
                    None => format!("{}", vi.as_usize()),
                };
                J::s(&format!("@{}", n))
            }
            ProjectionElem::OpaqueCast(_) => J::s("opaque"),
            ProjectionElem::UnwrapUnsafeBinder(_) => J::s("unbinder"),
        }
    }

    fn operand(&self, o: &Operand<'tcx>) -> J {
        match o {
            Operand::Copy(p) => J::A(vec![J::s("c"), self.place(*p)]),
            Operand::Move(p) => J::A(vec![J::s("m"), self.place(*p)]),
            Operand::Constant(c) => J::A(vec![J::s("k"), self.constant(&c.const_)]),
            #[allow(unreachable_patterns)]
            _ => J::A(vec![J::s("k"), J::s(&format!("{:?}", o))]),
        }
    }

    fn constant(&self, c: &Const<'tcx>) -> J {
        let tcx = self.tcx;
        let mut m = BTreeMap::new();
        let ty = c.ty();
        if let ty::FnDef(d, args) = ty.kind() {
            m.insert("fn".into(), self.fn_ref(*d, args));
            return J::O(m);
        }
        m.insert("ty".into(), J::s(&ty.to_string()));
        match c {
            Const::Unevaluated(u, _) => {
                m.insert("def".into(), J::s(&dpath(tcx, u.def)));
                if u.promoted.is_none() && u.args.is_empty() {
                    if let Ok(v) = tcx.const_eval_poly(u.def) {
                        if let Some(s) = v.try_to_scalar_int() {
                            m.insert("v".into(), J::s(&s.to_bits(s.size()).to_string()));
                        }
                    }
                }
            }
            Const::Val(v, _) => {
                if let Some(s) = v.try_to_scalar_int() {
                    m.insert("v".into(), J::s(&s.to_bits(s.size()).to_string()));
                } else if let mir::ConstValue::Slice { .. } = v {
                    if let ty::Ref(_, inner, _) = ty.kind() {
                        if inner.is_str() {
                            if let Some(b) = v.try_get_slice_bytes_for_diagnostics(tcx) {
                                m.insert("str".into(), J::s(&String::from_utf8_lossy(b)));
                            }
                        }
                    }
                }
            }
            Const::Ty(_, ct) => {
                if let Some(s) = ct.try_to_leaf() {
                    m.insert("v".into(), J::s(&s.to_bits(s.size()).to_string()));
                } else {
                    m.insert("ct".into(), J::s(&format!("{:?}", ct)));
                }
            }
        }
        J::O(m)
    }

    fn fn_ref(&self, d: DefId, args: GenericArgsRef<'tcx>) -> J {
        let tcx = self.tcx;
        let mut m = BTreeMap::new();
        m.insert("def".into(), J::s(&dpath(tcx, d)));
        m.insert("args".into(), J::A(args.iter().map(|a| J::s(&a.to_string())).collect()));
        m.insert("name".into(), J::s(&tcx.opt_item_name(d).map(|s| s.to_string()).unwrap_or_default()));
        m.insert("local".into(), J::B(d.is_local()));
        // receiver kind of the callee: does it take `&mut` as first input?
        if matches!(tcx.def_kind(d), DefKind::Fn | DefKind::AssocFn) {
            let sig = tcx.fn_sig(d).instantiate_identity().skip_norm_wip().skip_binder();
            if let Some(first) = sig.inputs().first() {
                if let ty::Ref(_, _, mt) = first.kind() {
                    m.insert("recv".into(), J::s(if mt.is_mut() { "mut" } else { "ref" }));
                } else {
                    m.insert("recv".into(), J::s("val"));
                }
            }
        }
        if d.is_local() {
            m.insert("dp".into(), J::s(&tcx.def_path(d).to_string_no_crate_verbose()));
        }
        if let Some(ai) = tcx.opt_associated_item(d) {
            let parent = tcx.parent(d);
            match tcx.def_kind(parent) {
                DefKind::Trait => {
                    m.insert("trait".into(), J::s(&dpath(tcx, parent)));
                    if let Some(st) = args.get(0).and_then(|a| a.as_type()) {
                        m.insert("self_ty".into(), J::s(&st.to_string()));
                        if let Some(a) = peel_adt(st) {
                            m.insert("self_adt".into(), J::s(&dpath(tcx, a)));
                        }
                    }
                    // try to resolve to the impl item
                    let eargs = tcx.erase_and_anonymize_regions(args);
                    if !has_infer_or_param_self(eargs) {
                        if let Ok(Some(inst)) = Instance::try_resolve(tcx, self.env, d, eargs) {
                            let rd = inst.def_id();
                            if rd != d {
                                m.insert("resolved".into(), J::s(&dpath(tcx, rd)));
                                if rd.is_local() {
                                    m.insert(
                                        "resolved_dp".into(),
                                        J::s(&tcx.def_path(rd).to_string_no_crate_verbose()),
                                    );
                                }
                            }
                        }
                    }
                }
                DefKind::Impl { .. } => {
                    let st = tcx.type_of(parent).instantiate(tcx, args).skip_norm_wip();
                    m.insert("self_ty".into(), J::s(&st.to_string()));
                    if let Some(a) = peel_adt(st) {
                        m.insert("self_adt".into(), J::s(&dpath(tcx, a)));
                    }
                    if let Some(tr) = tcx.impl_opt_trait_ref(parent) {
                        m.insert("impl_trait".into(), J::s(&dpath(tcx, tr.skip_binder().def_id)));
                    }
                }
                _ => {}
            }
            let _ = ai;
        }
        // closures / coroutines called directly
        let _ = self.def;
        J::O(m)
    }

    fn rvalue(&self, r: &Rvalue<'tcx>) -> J {
        let mut m = BTreeMap::new();
        match r {
            Rvalue::Use(o, ..) => {
                m.insert("r".into(), J::s("use"));
                m.insert("o".into(), self.operand(o));
            }
            Rvalue::Ref(_, bk, p) => {
                m.insert("r".into(), J::s("ref"));
                let k = match bk {
                    mir::BorrowKind::Shared => "shared",
                    mir::BorrowKind::Fake(_) => "fake",
                    mir::BorrowKind::Mut { .. } => "mut",
                };
                m.insert("m".into(), J::s(k));
                m.insert("p".into(), self.place(*p));
            }
            Rvalue::RawPtr(_, p) => {
                m.insert("r".into(), J::s("rawptr"));
                m.insert("p".into(), self.place(*p));
            }
            Rvalue::Cast(k, o, t) => {
                m.insert("r".into(), J::s("cast"));
                m.insert("kind".into(), J::s(&format!("{:?}", k)));
                m.insert("o".into(), self.operand(o));
                m.insert("ty".into(), J::s(&t.to_string()));
            }
            Rvalue::BinaryOp(op, ab) => {
                m.insert("r".into(), J::s("bin"));
                m.insert("op".into(), J::s(&format!("{:?}", op)));
                m.insert("a".into(), self.operand(&ab.0));
                m.insert("b".into(), self.operand(&ab.1));
            }
            Rvalue::UnaryOp(op, o) => {
                m.insert("r".into(), J::s("un"));
                m.insert("op".into(), J::s(&format!("{:?}", op)));
                m.insert("a".into(), self.operand(o));
            }
            Rvalue::Discriminant(p) => {
                m.insert("r".into(), J::s("discr"));
                m.insert("p".into(), self.place(*p));
                let pt = p.ty(self.body, self.tcx).ty;
                if let ty::Adt(adt, _) = pt.kind() {
                    if adt.is_enum() {
                        m.insert("adt".into(), J::s(&dpath(self.tcx, adt.did())));
                        let vs: Vec<J> = adt
                            .discriminants(self.tcx)
                            .map(|(vi, d)| {
                                J::A(vec![J::s(&d.val.to_string()), J::s(adt.variant(vi).name.as_str())])
                            })
                            .collect();
                        m.insert("variants".into(), J::A(vs));
                    }
                }
            }
            Rvalue::CopyForDeref(p) => {
                m.insert("r".into(), J::s("use"));
                m.insert("o".into(), J::A(vec![J::s("c"), self.place(*p)]));
            }
            Rvalue::Aggregate(k, ops) => {
                m.insert("r".into(), J::s("agg"));
                match &**k {
                    AggregateKind::Array(_) => {
                        m.insert("kind".into(), J::s("array"));
                    }
                    AggregateKind::Tuple => {
                        m.insert("kind".into(), J::s("tuple"));
                    }
                    AggregateKind::Adt(d, vi, args, _, active) => {
                        m.insert("kind".into(), J::s("adt"));
                        let adt = self.tcx.adt_def(*d);
                        m.insert("adt".into(), J::s(&dpath(self.tcx, *d)));
                        let v = adt.variant(*vi);
                        m.insert("variant".into(), J::s(v.name.as_str()));
                        m.insert(
                            "fields".into(),
                            J::A(match active {
                                Some(f) => vec![J::s(v.fields[*f].name.as_str())],
                                None => v.fields.iter().map(|f| J::s(f.name.as_str())).collect(),
                            }),
                        );
                        m.insert("args".into(), J::A(args.iter().map(|a| J::s(&a.to_string())).collect()));
                    }
                    AggregateKind::Closure(d, _) => {
                        m.insert("kind".into(), J::s("closure"));
                        m.insert("def".into(), J::s(&dpath(self.tcx, *d)));
                        m.insert("dp".into(), J::s(&self.tcx.def_path(*d).to_string_no_crate_verbose()));
                    }
                    AggregateKind::Coroutine(d, _) => {
                        m.insert("kind".into(), J::s("coroutine"));
                        m.insert("def".into(), J::s(&dpath(self.tcx, *d)));
                        m.insert("dp".into(), J::s(&self.tcx.def_path(*d).to_string_no_crate_verbose()));
                    }
                    AggregateKind::CoroutineClosure(d, _) => {
                        m.insert("kind".into(), J::s("coroutine_closure"));
                        m.insert("def".into(), J::s(&dpath(self.tcx, *d)));
                        m.insert("dp".into(), J::s(&self.tcx.def_path(*d).to_string_no_crate_verbose()));
                    }
                    AggregateKind::RawPtr(..) => {
                        m.insert("kind".into(), J::s("rawptr"));
                    }
                }
                m.insert("ops".into(), J::A(ops.iter().map(|o| self.operand(o)).collect()));
            }
            other => {
                m.insert("r".into(), J::s("other"));
                m.insert("d".into(), J::s(&format!("{:?}", other)));
            }
        }
        J::O(m)
    }

    fn stmt(&self, st: &mir::Statement<'tcx>) -> Option<J> {
        let mut m = BTreeMap::new();
        match &st.kind {
            StatementKind::Assign(b) => {
                let (p, r) = &**b;
                m.insert("k".into(), J::s("assign"));
                m.insert("p".into(), self.place(*p));
                m.insert("rv".into(), self.rvalue(r));
            }
            StatementKind::SetDiscriminant { place, variant_index } => {
                m.insert("k".into(), J::s("setdiscr"));
                m.insert("p".into(), self.place(**place));
                m.insert("variant".into(), J::I(variant_index.as_usize() as i64));
            }
            StatementKind::FakeRead(b) => {
                let (cause, p) = &**b;
                m.insert("k".into(), J::s("fakeread"));
                m.insert("cause".into(), J::s(&format!("{:?}", cause)));
                m.insert("p".into(), self.place(*p));
            }
            StatementKind::StorageDead(l) => {
                m.insert("k".into(), J::s("dead"));
                m.insert("local".into(), J::I(l.as_usize() as i64));
                return Some(J::O(m));
            }
            _ => return None,
        }
        self.line(st.source_info.span, &mut m);
        Some(J::O(m))
    }

    fn bb(&self, b: BasicBlock) -> J {
        J::I(b.as_usize() as i64)
    }

    fn unwind(&self, u: &UnwindAction) -> J {
        match u {
            UnwindAction::Cleanup(b) => self.bb(*b),
            _ => J::N,
        }
    }

    fn term(&self, t: &mir::Terminator<'tcx>) -> J {
        let mut m = BTreeMap::new();
        self.line(t.source_info.span, &mut m);
        match &t.kind {
            TerminatorKind::Goto { target } => {
                m.insert("t".into(), J::s("goto"));
                m.insert("tgt".into(), self.bb(*target));
            }
            TerminatorKind::SwitchInt { discr, targets } => {
                m.insert("t".into(), J::s("switch"));
                m.insert("o".into(), self.operand(discr));
                m.insert("ty".into(), J::s(&discr.ty(self.body, self.tcx).to_string()));
                let mut ts = Vec::new();
                for (v, b) in targets.iter() {
                    ts.push(J::A(vec![J::s(&v.to_string()), self.bb(b)]));
                }
                m.insert("targets".into(), J::A(ts));
                m.insert("otherwise".into(), self.bb(targets.otherwise()));
            }
            TerminatorKind::UnwindResume => {
                m.insert("t".into(), J::s("resume"));
            }
            TerminatorKind::UnwindTerminate(_) => {
                m.insert("t".into(), J::s("terminate"));
            }
            TerminatorKind::Return => {
                m.insert("t".into(), J::s("return"));
            }
            TerminatorKind::Unreachable => {
                m.insert("t".into(), J::s("unreachable"));
            }
            TerminatorKind::Drop { place, target, unwind, .. } => {
                m.insert("t".into(), J::s("drop"));
                m.insert("p".into(), self.place(*place));
                m.insert("tgt".into(), self.bb(*target));
                m.insert("unw".into(), self.unwind(unwind));
            }
            TerminatorKind::Call { func, args, destination, target, unwind, fn_span, .. } => {
                m.insert("t".into(), J::s("call"));
                let fty = func.ty(self.body, self.tcx);
                match fty.kind() {
                    ty::FnDef(d, a) => {
                        m.insert("fn".into(), self.fn_ref(*d, a));
                    }
                    _ => {
                        m.insert("f".into(), self.operand(func));
                        m.insert("fty".into(), J::s(&format!("{}", fty)));
                    }
                }
                m.insert("a".into(), J::A(args.iter().map(|a| self.operand(&a.node)).collect()));
                m.insert("d".into(), self.place(*destination));
                m.insert("dty".into(), J::s(&destination.ty(self.body, self.tcx).ty.to_string()));
                m.insert("tgt".into(), target.map(|b| self.bb(b)).unwrap_or(J::N));
                m.insert("unw".into(), self.unwind(unwind));
                let (_f, l, _e) = span_line(self.tcx, *fn_span);
                m.insert("fl".into(), J::I(l as i64));
            }
            TerminatorKind::TailCall { func, args, .. } => {
                m.insert("t".into(), J::s("tailcall"));
                m.insert("f".into(), self.operand(func));
                m.insert("a".into(), J::A(args.iter().map(|a| self.operand(&a.node)).collect()));
            }
            TerminatorKind::Assert { cond, expected, msg, target, unwind } => {
                m.insert("t".into(), J::s("assert"));
                m.insert("cond".into(), self.operand(cond));
                m.insert("expected".into(), J::B(*expected));
                let k = format!("{:?}", msg);
                let k = k.split('(').next().unwrap_or("").to_string();
                m.insert("msg".into(), J::s(&k));
                m.insert("tgt".into(), self.bb(*target));
                m.insert("unw".into(), self.unwind(unwind));
            }
            TerminatorKind::Yield { value, resume, resume_arg, drop } => {
                m.insert("t".into(), J::s("yield"));
                m.insert("v".into(), self.operand(value));
                m.insert("resume".into(), self.bb(*resume));
                m.insert("ra".into(), self.place(*resume_arg));
                m.insert("drop".into(), drop.map(|b| self.bb(b)).unwrap_or(J::N));
            }
            TerminatorKind::CoroutineDrop => {
                m.insert("t".into(), J::s("coroutine_drop"));
            }
            TerminatorKind::FalseEdge { real_target, imaginary_target } => {
                m.insert("t".into(), J::s("falseedge"));
                m.insert("tgt".into(), self.bb(*real_target));
                m.insert("imag".into(), self.bb(*imaginary_target));
            }
            TerminatorKind::FalseUnwind { real_target, unwind } => {
                m.insert("t".into(), J::s("falseunwind"));
                m.insert("tgt".into(), self.bb(*real_target));
                m.insert("unw".into(), self.unwind(unwind));
            }
            TerminatorKind::InlineAsm { .. } => {
                m.insert("t".into(), J::s("asm"));
            }
        }
        J::O(m)
    }
}

fn peel_adt<'tcx>(mut t: Ty<'tcx>) -> Option<DefId> {
    loop {
        match t.kind() {
            ty::Ref(_, inner, _) => t = *inner,
            ty::Adt(a, _) => return Some(a.did()),
            _ => return None,
        }
    }
}

fn has_infer_or_param_self<'tcx>(args: GenericArgsRef<'tcx>) -> bool {
    use rustc_middle::ty::TypeVisitableExt;
    args.has_infer()
}

struct UnsafeVisitor<'tcx> {
    tcx: TyCtxt<'tcx>,
    found: Vec<J>,
}

impl<'tcx> rustc_hir::intravisit::Visitor<'tcx> for UnsafeVisitor<'tcx> {
    type NestedFilter = rustc_middle::hir::nested_filter::All;
    fn maybe_tcx(&mut self) -> TyCtxt<'tcx> {
        self.tcx
    }
    fn visit_block(&mut self, b: &'tcx rustc_hir::Block<'tcx>) {
        if let rustc_hir::BlockCheckMode::UnsafeBlock(src) = b.rules {
            let (f, l, exp) = span_line(self.tcx, b.span);
            let owner = self.tcx.hir_enclosing_body_owner(b.hir_id);
            let mut m = BTreeMap::new();
            m.insert("file".into(), J::s(&f));
            m.insert("line".into(), J::I(l as i64));
            m.insert("x".into(), J::B(exp));
            m.insert("user".into(), J::B(matches!(src, rustc_hir::UnsafeSource::UserProvided)));
            m.insert("owner".into(), J::s(&dpath(self.tcx, owner.to_def_id())));
            self.found.push(J::O(m));
        }
        rustc_hir::intravisit::walk_block(self, b);
    }
}
