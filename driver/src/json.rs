// Minimal JSON value + writer (the driver has zero cargo dependencies).
use std::collections::BTreeMap;

pub enum J {
    N,
    B(bool),
    I(i64),
    S(String),
    A(Vec<J>),
    O(BTreeMap<String, J>),
}

impl J {
    pub fn s(x: &str) -> J {
        J::S(x.to_string())
    }

    pub fn write(&self, out: &mut String) {
        match self {
            J::N => out.push_str("null"),
            J::B(b) => out.push_str(if *b { "true" } else { "false" }),
            J::I(i) => out.push_str(&i.to_string()),
            J::S(s) => esc(s, out),
            J::A(v) => {
                out.push('[');
                for (i, x) in v.iter().enumerate() {
                    if i > 0 {
                        out.push(',');
                    }
                    x.write(out);
                }
                out.push(']');
            }
            J::O(m) => {
                out.push('{');
                for (i, (k, x)) in m.iter().enumerate() {
                    if i > 0 {
                        out.push(',');
                    }
                    esc(k, out);
                    out.push(':');
                    x.write(out);
                }
                out.push('}');
            }
        }
    }
}

fn esc(s: &str, out: &mut String) {
    out.push('"');
    for c in s.chars() {
        match c {
            '"' => out.push_str("\\\""),
            '\\' => out.push_str("\\\\"),
            '\n' => out.push_str("\\n"),
            '\r' => out.push_str("\\r"),
            '\t' => out.push_str("\\t"),
            c if (c as u32) < 0x20 => out.push_str(&format!("\\u{:04x}", c as u32)),
            c => out.push(c),
        }
    }
    out.push('"');
}
